"""Library stubs bound into symbolically loaded modules (KD-trees, file system, plotting, progress bars)."""
import builtins, numbers
import numpy as _np
from . import core, npx
from .core import Sym, SNum, SSqrt, is_sym, Unsupported, zreal


def _quiet_print(*a, **k):
    return None


# ---------------------------------------------------------------------------------------------
# KD-tree specification stubs (brute force; closed ball; ascending distance, ties by index)


def _dists(pts, q):
    """distances from q to every row of pts as comparable objects (SSqrt / float)."""
    out = []
    for row in pts:
        diffs = [a - b for a, b in zip(row, q)]
        symd = [d for d in diffs if is_sym(d)]
        if not symd:
            out.append(float(sum(d * d for d in diffs)) ** 0.5)
            continue
        conc = [d for d in diffs if not is_sym(d)]
        if len(symd) == 1 and all(c == 0 for c in conc):
            out.append(abs(symd[0]))
        else:
            rad = None
            for d in diffs:
                t = d * d
                rad = t if rad is None else rad + t
            out.append(SSqrt(zreal(rad)))
    return out


def _sorted_idx(d, idx):
    import functools

    def cmp(i, j):
        if bool(d[i] < d[j]):
            return -1
        if bool(d[j] < d[i]):
            return 1
        return -1 if i < j else (1 if i > j else 0)
    return sorted(idx, key=functools.cmp_to_key(cmp))


class ScipyKDTree:
    """scipy.spatial.KDTree: query(x, k), query_ball_point(x, r)."""

    def __init__(self, data, *a, **k):
        self.data = npx.obj(data)
        self.n = self.data.shape[0]
        self._sym = npx.has_sym(self.data)
        if not self._sym:
            import scipy.spatial
            self._real = scipy.spatial.KDTree(self.data.astype(float), *a, **k)

    def query(self, x, k=1, **kw):
        if not self._sym and not npx.has_sym(x):
            return self._real.query(_np.asarray(npx._demote(npx.obj(x)), dtype=float), k=k, **kw)
        X = npx.obj(x)
        single = X.ndim == 1
        X2 = _np.atleast_2d(X)
        ks = list(k) if isinstance(k, (list, tuple, _np.ndarray)) else list(range(1, k + 1))
        kmax = max(ks)
        D = _np.empty((X2.shape[0], len(ks)), dtype=object)
        I = _np.empty((X2.shape[0], len(ks)), dtype=int)
        for r, q in enumerate(X2):
            d = _dists(self.data, q)
            order = _sorted_idx(d, list(range(self.n)))
            for c, kk in enumerate(ks):
                if kk <= self.n:
                    I[r, c] = order[kk - 1]
                    D[r, c] = d[order[kk - 1]]
                else:
                    I[r, c] = self.n
                    D[r, c] = float("inf")
        if isinstance(k, (int, _np.integer)) and k == 1:
            D, I = D[:, 0], I[:, 0]
        if single:
            return D[0], I[0]
        return D, I

    def query_ball_point(self, x, r, **kw):
        if not self._sym and not npx.has_sym(x) and not is_sym(r):
            return self._real.query_ball_point(_np.asarray(npx._demote(npx.obj(x)), dtype=float), r, **kw)
        X = npx.obj(x)
        single = X.ndim == 1
        X2 = _np.atleast_2d(X)
        res = _np.empty(X2.shape[0], dtype=object)
        for i, q in enumerate(X2):
            d = _dists(self.data, q)
            res[i] = [j for j in range(self.n) if bool(d[j] <= r)]
        return res[0] if single else res

    def query_ball_tree(self, other, r, **kw):
        return [self_i for self_i in other.query_ball_point(self.data, r)]


class SklearnKDTree:
    """sklearn.neighbors.KDTree: query(X, k), query_radius(X, r, return_distance, sort_results)."""

    def __init__(self, data, *a, **k):
        self.data = npx.obj(data)
        self.n = self.data.shape[0]
        self._sym = npx.has_sym(self.data)
        if not self._sym:
            import sklearn.neighbors
            self._real = sklearn.neighbors.KDTree(self.data.astype(float), *a, **k)

    def query(self, X, k=1, return_distance=True, **kw):
        if not self._sym and not npx.has_sym(X):
            return self._real.query(_np.asarray(npx._demote(npx.obj(X)), dtype=float), k=k, return_distance=return_distance, **kw)
        X2 = _np.atleast_2d(npx.obj(X))
        if k > self.n:
            raise ValueError("k must be less than or equal to the number of training points")
        D = _np.empty((X2.shape[0], k), dtype=object)
        I = _np.empty((X2.shape[0], k), dtype=int)
        for r, q in enumerate(X2):
            d = _dists(self.data, q)
            order = _sorted_idx(d, list(range(self.n)))
            for c in range(k):
                I[r, c] = order[c]
                D[r, c] = d[order[c]]
        return (D, I) if return_distance else I

    def query_radius(self, X, r, return_distance=False, count_only=False, sort_results=False):
        if not self._sym and not npx.has_sym(X) and not npx.has_sym(r):
            return self._real.query_radius(_np.asarray(npx._demote(npx.obj(X)), dtype=float), r, return_distance=return_distance,
                                           count_only=count_only, sort_results=sort_results)
        X2 = _np.atleast_2d(npx.obj(X))
        o1 = _np.empty(X2.shape[0], dtype=object)
        o2 = _np.empty(X2.shape[0], dtype=object)
        for i, q in enumerate(X2):
            rr = r[i] if isinstance(r, _np.ndarray) and r.ndim else r
            d = _dists(self.data, q)
            idx = [j for j in range(self.n) if bool(d[j] <= rr)]
            if sort_results:
                idx = _sorted_idx(d, idx)
            o1[i] = _np.array(idx, dtype=int)
            dd = _np.empty(len(idx), dtype=object)
            for kx, j in enumerate(idx):
                dd[kx] = d[j]
            o2[i] = dd
        if count_only:
            return _np.array([len(v) for v in o1])
        return (o1, o2) if return_distance else o1


class _SN:
    KDTree = SklearnKDTree

    def __getattr__(self, name):
        import sklearn.neighbors
        return getattr(sklearn.neighbors, name)


def substitute(short, g):
    """Replace library bindings in module namespace `g`; returns the names replaced."""
    import scipy.spatial, sklearn.neighbors
    subs = []
    for name, val in list(g.items()):
        if val is scipy.spatial.KDTree or val is getattr(scipy.spatial, "cKDTree", None):
            g[name] = ScipyKDTree; subs.append(name)
        elif val is sklearn.neighbors.KDTree:
            g[name] = SklearnKDTree; subs.append(name)
        elif val is sklearn.neighbors:
            g[name] = _SN(); subs.append(name)
    g["print"] = _quiet_print
    subs.append("print")
    from . import fs, numstubs
    subs += fs.substitute(short, g)
    subs += numstubs.substitute(short, g)
    return subs
