"""Path exploration (DFS by re-execution, parallel by prefix), obligations, sym/concrete environments."""
import concurrent.futures as cf
import multiprocessing as mp
import io, contextlib, math, os, sys, time, traceback, warnings, hashlib, json
from fractions import Fraction
import numpy as np
import z3
from . import core, solve
from .core import Ctx, SNum, SBool, SAngle, SSqrt, PathAbort, Unsupported, zreal, zbool, is_sym


class SkipPath(BaseException):
    """Concrete mode: the model does not satisfy an assumption (precondition not met)."""


class Expected(Exception):
    pass


# ---------------------------------------------------------------------------------------------
# polymorphic environments


def fold_defs(term, defs):
    """Rewrite `term` replacing every maximal arithmetic subterm that is polynomially equal to a definition's right-hand
    side (or its negation) by the defined name.  Sound under the path condition, which contains name == polynomial."""
    if not defs:
        return term
    zero = z3.RealVal(0)
    cache = {}

    def canon(t):
        return z3.simplify(t, som=True)

    dcan = [(n, canon(p_)) for n, p_ in defs]

    def rec(t):
        k = t.get_id()
        if k in cache and cache[k][0].eq(t):
            return cache[k][1]
        out = t
        if z3.is_app(t) and t.num_args() > 0:
            if z3.is_arith(t) and t.decl().kind() in (z3.Z3_OP_ADD, z3.Z3_OP_MUL, z3.Z3_OP_SUB, z3.Z3_OP_UMINUS):
                ct = canon(t)
                for n, cp in dcan:
                    if ct.eq(cp) or z3.simplify(ct - cp, som=True).eq(zero):
                        out = n
                        break
                    if z3.simplify(ct + cp, som=True).eq(zero):
                        out = -n
                        break
                else:
                    out = t.decl()(*[rec(a) for a in t.children()])
            else:
                out = t.decl()(*[rec(a) for a in t.children()])
        cache[k] = (t, out)
        return out
    return rec(term)


class SymEnv:
    mode = "sym"

    def __init__(self, ctx, loader):
        self.ctx = ctx
        self.loader = loader
        self.obligations = []   # (name, z3 bool)
        self.vars = []          # declared input names in order
        self.info = {}

    def module(self, name):
        return self.loader.load(name)

    def real(self, name, lo=None, hi=None):
        v = z3.Real(name)
        self.vars.append(name)
        if lo is not None:
            self.ctx.assume(v >= zreal(lo))
        if hi is not None:
            self.ctx.assume(v <= zreal(hi))
        return SNum(v)

    def integer(self, name, lo=None, hi=None):
        v = z3.Int(name)
        self.vars.append(name)
        if lo is not None:
            self.ctx.assume(v >= int(lo))
        if hi is not None:
            self.ctx.assume(v <= int(hi))
        return SNum(v)

    def intreal(self, name, lo=None, hi=None):
        """Real-sorted variable constrained to integer values (ids stored as floats)."""
        k = z3.Int(name)
        self.vars.append(name)
        if lo is not None:
            self.ctx.assume(k >= int(lo))
        if hi is not None:
            self.ctx.assume(k <= int(hi))
        return SNum(z3.ToReal(k))

    def choice(self, name, domain):
        v = z3.Real(name)
        self.vars.append(name)
        dom = [float(d) for d in domain]
        self.ctx.domains[name] = dom
        self.ctx.assume(z3.Or([v == zreal(d) for d in dom]))
        return SNum(v, dom=dom)

    def angle(self, name):
        self.vars.append("c_" + name)
        self.vars.append("s_" + name)
        return SAngle.fresh(name)

    def angle_value(self, name, lo=-180, hi=180):
        """An input angle given by its numeric value in degrees (a solver real in (lo, hi]) together with its point on the
        unit circle; value and point are linked by quadrant facts only (cos/sin of a free real has no SMT theory)."""
        v = z3.Real(name)
        self.vars.append(name)
        a = SAngle.fresh(name)
        a._v = v
        a._vax = [z3.And(v > lo, v <= hi) if lo < 0 else z3.And(v >= lo, v <= hi)]
        if (lo, hi) in ((-180, 180), (0, 180)):
            a._vax.append(z3.And(z3.Implies(v == 0, z3.And(a.c == 1, a.s == 0)), z3.Implies(z3.And(a.c == 1, a.s == 0), v == 0),
                                 z3.Implies(v == 180, z3.And(a.c == -1, a.s == 0)), z3.Implies(z3.And(a.c == -1, a.s == 0), v == 180),
                                 z3.Implies(z3.And(v > 0, v < 180), a.s > 0), z3.Implies(v < 0, a.s < 0),
                                 z3.Implies(a.s > 0, z3.And(v > 0, v < 180)), z3.Implies(a.s < 0, v < 0)))
        self.ctx.assume(a._vax[0])
        return a

    def boolean(self, name):
        self.vars.append(name)
        return SBool(z3.Bool(name))

    def assume(self, cond):
        self.ctx.assume(zbool(cond))

    def check(self, name, cond):
        self.obligations.append((name, z3.simplify(zbool(cond))))

    # predicates
    def eq(self, a, b):
        if isinstance(a, SAngle) or isinstance(b, SAngle):
            a = a if isinstance(a, SAngle) else SAngle.const(a)
            return a.same(b)
        if not is_sym(a) and not is_sym(b) and not z3.is_expr(a) and not z3.is_expr(b):
            # two concrete floats computed by different float expressions: compare with the concrete tolerance
            fa, fb = float(a), float(b)
            return SBool(z3.BoolVal(abs(fa - fb) <= TOL * (1 + max(abs(fa), abs(fb)))))
        return SBool(zreal(a) == zreal(b))

    def le(self, a, b): return _cmp(a, b, "le")
    def lt(self, a, b): return _cmp(a, b, "lt")
    def ge(self, a, b): return _cmp(b, a, "le")
    def gt(self, a, b): return _cmp(b, a, "lt")
    def and_(self, *cs): return SBool(z3.And([zbool(c) for c in cs])) if cs else SBool(z3.BoolVal(True))
    def or_(self, *cs): return SBool(z3.Or([zbool(c) for c in cs])) if cs else SBool(z3.BoolVal(False))
    def not_(self, c): return SBool(z3.Not(zbool(c)))
    def implies(self, a, b): return SBool(z3.Implies(zbool(a), zbool(b)))
    def iff(self, a, b): return SBool(zbool(a) == zbool(b))
    def true(self): return SBool(z3.BoolVal(True))
    def is_int(self, a):
        if not is_sym(a):
            return SBool(z3.BoolVal(float(a).is_integer()))
        e = z3.simplify(a.e) if isinstance(a, SNum) else None
        if e is not None and (z3.is_int(e) or (z3.is_app(e) and e.decl().kind() == z3.Z3_OP_TO_REAL)):
            return SBool(z3.BoolVal(True))
        return SBool(z3.IsInt(zreal(a)))
    def cos(self, a): return a.cos() if isinstance(a, SAngle) else SNum(core.const_cos_sin(a)[0])
    def sin(self, a): return a.sin() if isinstance(a, SAngle) else SNum(core.const_cos_sin(a)[1])
    def const_angle(self, deg): return SAngle.const(deg)
    def sqrt(self, a): return SSqrt(zreal(a))
    def ite(self, c, a, b):
        return SNum(z3.If(zbool(c), zreal(a), zreal(b)))
    def fun(self, name, *args): return core.sx_fun(name, *args)
    def acos_addition_law(self, d1, d2, d3):
        """Contract of arccos used by the triangle-inequality obligations (an axiom about the library function, listed in
        the harness' assumptions): for u, v, w in [0,1]
            acos(w) <= acos(u) + acos(v)   <=>   w >= u*v - sqrt((1-u^2)(1-v^2))
        (acos(u)+acos(v) lies in [0,pi], where cos is decreasing, and cos(acos u + acos v) = uv - sqrt(1-u^2)sqrt(1-v^2)).
        d1, d2, d3 are values k*acos(.) of the same k and unit.  The arguments are first rewritten over the NAMES of the
        quaternion inner products (the definitional equalities name == polynomial are part of the path condition)."""
        from . import npx
        if not all(isinstance(d, npx.SAcos) for d in (d1, d2, d3)):
            raise Unsupported("acos_addition_law on non-acos values")
        if len({(d.k, d.deg) for d in (d1, d2, d3)}) != 1:
            raise Unsupported("acos_addition_law: different scalings")
        defs = self.ctx.__dict__.get("_qdot_defs", [])
        u, v, w = [fold_defs(d.arg, defs) for d in (d1, d2, d3)]
        s = z3.Real("acos_s!%d" % next(self.ctx.fresh))
        self.ctx.assume(z3.And(s >= 0, s * s == (1 - u * u) * (1 - v * v)))
        self.ctx.assume((zreal(d3) <= zreal(d1) + zreal(d2)) == (w >= u * v - s))
        return u, v, w

    def note(self, k, v): self.info[k] = v
    def path(self, name): return "/sxfs/" + name

    def option(self, name, value):
        from . import npx
        npx.STATE[name] = value

    def real_path(self, name):
        """a path in a real scratch directory (for code that goes through the real `open`)"""
        import tempfile
        if getattr(self, "_tmp", None) is None:
            self._tmp = tempfile.mkdtemp(prefix="sxsym_")
        return os.path.join(self._tmp, name)

    def cleanup(self):
        import shutil
        if getattr(self, "_tmp", None):
            shutil.rmtree(self._tmp, ignore_errors=True)
            self._tmp = None

    def file_view(self, path):
        """(format, dtype name, (nx,ny,nz) header dims, getter(ix,iy,iz) of the element stored at x-fastest position)"""
        from . import fs
        r = fs.FSYS.files[path]
        data = r.data
        if type(data).__name__ == "LArray":
            return r.fmt, r.dtype, r.dims, (lambda ix, iy, iz: data.at((iz, iy, ix)))
        return r.fmt, r.dtype, r.dims, (lambda ix, iy, iz: data[iz][iy][ix])

    def file_exists(self, path):
        from . import fs
        return path in fs.FSYS.files


def _cmp(a, b, op):
    if isinstance(a, SSqrt) or isinstance(b, SSqrt):
        if isinstance(a, SSqrt):
            r = a.__le__(b) if op == "le" else a.__lt__(b)
        else:
            r = b.__ge__(a) if op == "le" else b.__gt__(a)
        return r
    za, zb = zreal(a), zreal(b)
    return SBool(za <= zb if op == "le" else za < zb)


TOL = 1e-6


class ConcEnv:
    """Concrete mode: same harness code, plain `cryocat` package, real libraries, floats from a model."""
    mode = "conc"

    def __init__(self, model, loader=None, tol=TOL):
        self.model = model
        self.obligations = []   # (name, bool)
        self.tol = tol
        self.info = {}
        self.vars = []

    def module(self, name):
        import importlib
        return importlib.import_module("cryocat." + name)

    def _get(self, name, default=0.0):
        v = self.model.get(name, default)
        return v

    def real(self, name, lo=None, hi=None):
        v = float(self._get(name, lo if lo is not None else 0.0))
        if (lo is not None and v < lo - 1e-12) or (hi is not None and v > hi + 1e-12):
            raise SkipPath(name)
        return v

    def integer(self, name, lo=None, hi=None):
        v = self._get(name, lo if lo is not None else 0)
        if Fraction(v).denominator != 1:
            raise SkipPath(name)
        v = int(v)
        if (lo is not None and v < lo) or (hi is not None and v > hi):
            raise SkipPath(name)
        return v

    def intreal(self, name, lo=None, hi=None):
        return float(self.integer(name, lo, hi))

    def choice(self, name, domain):
        v = float(self._get(name, domain[0]))
        if not any(abs(v - float(d)) < 1e-12 for d in domain):
            raise SkipPath(name)
        return v

    def angle(self, name):
        c = float(self._get("c_" + name, 1.0))
        s = float(self._get("s_" + name, 0.0))
        if abs(c * c + s * s - 1) > 1e-6:
            raise SkipPath(name)
        return math.degrees(math.atan2(s, c))

    def angle_value(self, name, lo=-180, hi=180):
        v = float(self._get(name, 0.0))
        if v < lo - 1e-12 or v > hi + 1e-12:
            raise SkipPath(name)
        return v

    def boolean(self, name):
        return bool(self._get(name, False))

    def assume(self, cond):
        if not bool(cond):
            raise SkipPath("assumption")

    def check(self, name, cond):
        self.obligations.append((name, bool(cond)))

    def eq(self, a, b):
        a, b = float(a), float(b)
        return abs(a - b) <= self.tol * (1 + max(abs(a), abs(b)))

    # inequalities are evaluated exactly: the oracle computes them with the same float operations as the code;
    # boundary (tie) models are handled by preferring interior models, not by a tolerance
    def le(self, a, b): return float(a) <= float(b)
    def lt(self, a, b): return float(a) < float(b)
    def ge(self, a, b): return self.le(b, a)
    def gt(self, a, b): return self.lt(b, a)
    def and_(self, *cs): return all(bool(c) for c in cs)
    def or_(self, *cs): return any(bool(c) for c in cs)
    def not_(self, c): return not bool(c)
    def implies(self, a, b): return (not bool(a)) or bool(b)
    def iff(self, a, b): return bool(a) == bool(b)
    def true(self): return True
    def is_int(self, a): return abs(float(a) - round(float(a))) <= 1e-9
    def cos(self, a): return math.cos(math.radians(float(a)))
    def sin(self, a): return math.sin(math.radians(float(a)))
    def const_angle(self, deg): return float(deg)
    def sqrt(self, a): return math.sqrt(max(0.0, float(a)))
    def ite(self, c, a, b): return a if bool(c) else b
    def fun(self, name, *args):
        f = {"exp": math.exp, "acos": lambda x: math.acos(max(-1.0, min(1.0, x))), "pow": math.pow}[name]
        return f(*[float(a) for a in args])
    def note(self, k, v): self.info[k] = v

    def acos_addition_law(self, d1, d2, d3):
        return None

    def path(self, name):
        import tempfile
        if getattr(self, "_tmp", None) is None:
            self._tmp = tempfile.mkdtemp(prefix="sxconc_")
        return os.path.join(self._tmp, name)

    real_path = path

    def option(self, name, value):
        pass

    def cleanup(self):
        import shutil
        if getattr(self, "_tmp", None):
            shutil.rmtree(self._tmp, ignore_errors=True)
            self._tmp = None

    def file_view(self, path):
        from . import fmt
        return fmt.parse_file(path)

    def file_exists(self, path):
        return os.path.isfile(path)


# ---------------------------------------------------------------------------------------------
# running one path


def _model_to_json(m):
    out = {}
    for k, v in (m or {}).items():
        if isinstance(v, bool):
            out[k] = v
        else:
            out[k] = str(Fraction(v))
    return out


def model_from_json(m):
    out = {}
    for k, v in m.items():
        out[k] = v if isinstance(v, bool) else Fraction(v)
    return out


def run_concrete(harness, params, model, tol=TOL):
    """Run the harness on the plain package with concrete values. Returns dict."""
    env = ConcEnv(model, tol=tol)
    res = {"status": "ok", "failed": [], "obligations": 0}
    cwd = os.getcwd()
    try:
        os.chdir(os.path.dirname(env.path("x")))     # code under test may write side files (e.g. band.em) into the cwd
        with warnings.catch_warnings():
            warnings.simplefilter("ignore")
            with contextlib.redirect_stdout(io.StringIO()):
                harness(env, **params)
    except SkipPath as e:
        res["status"] = "skip"
        res["why"] = str(e)
        return res
    except Expected as e:
        res["status"] = "expected-exception"
        return res
    except Exception as e:
        tb = traceback.extract_tb(e.__traceback__)
        res["status"] = "exception"
        res["exception"] = "%s: %s" % (type(e).__name__, str(e)[:200])
        res["where"] = ["%s:%d" % (os.path.basename(f.filename), f.lineno) for f in tb][-4:]
        return res
    finally:
        os.chdir(cwd)
        env.cleanup()
    res["obligations"] = len(env.obligations)
    res["ob_names_hash"] = hashlib.sha256("|".join(sorted(n for n, _ in env.obligations)).encode()).hexdigest()[:16]
    res["failed"] = [n for n, ok in env.obligations if not ok]
    res["info"] = env.info
    return res


def _interior_model(pc, timeout):
    """A model of the path condition, preferring one in the interior (strict inequalities with margin)."""
    margin = z3.RealVal("1/1000")
    strong = []
    for c in pc:
        strong.append(_strengthen(c, margin))
    r, m, _ = solve.check(strong, timeout=timeout, want_model=True)
    if r == "sat" and m is not None:
        return m, True
    r, m, _ = solve.check(pc, timeout=timeout, want_model=True)
    if r == "sat" and m is not None:
        return m, False
    return None, False


def _diverse_models(pc, names, k, timeout, seed=0):
    import random
    rnd = random.Random(1234 + seed)
    reals = [n for n in names if not n.startswith(("c_", "s_"))]
    angles = sorted(n[2:] for n in names if n.startswith("c_") and ("s_" + n[2:]) in names)
    triples = [(3, 4, 5), (5, 12, 13), (8, 15, 17), (7, 24, 25), (20, 21, 29), (9, 40, 41)]
    out = []
    for i in range(k):
        extra = []
        for a in angles:
            # a generic direction for every angle given as a point of the unit circle (rational points: exact)
            if rnd.randrange(5) == 0:
                continue
            p_, q_, h_ = triples[rnd.randrange(len(triples))]
            if rnd.randrange(2):
                p_, q_ = q_, p_
            sc, ss = rnd.choice((1, -1)), rnd.choice((1, -1))
            extra.append(z3.And(z3.Real("c_" + a) == z3.RealVal("%d/%d" % (sc * p_, h_)), z3.Real("s_" + a) == z3.RealVal("%d/%d" % (ss * q_, h_))))
        rnd.shuffle(extra)
        for n in reals:
            v = z3.Real(n)
            ch = rnd.randrange(5)
            if ch == 0:
                extra.append(v < 0)
            elif ch == 1:
                extra.append(v > 0)
            elif ch == 2:
                kk = z3.Int("divk_%s" % n)
                extra.append(v == z3.ToReal(kk) + z3.RealVal("1/2"))      # half-integer tie
            elif ch == 3:
                kk = z3.Int("divk_%s" % n)
                extra.append(z3.And(v > z3.ToReal(kk) + z3.RealVal("1/2"), v < z3.ToReal(kk) + 1, v < 0))
        # drop extras until satisfiable
        while True:
            r, m, _ = solve.check(list(pc) + extra, timeout=timeout, want_model=True)
            if r == "sat" and m is not None:
                out.append(m)
                break
            if not extra:
                break
            extra = extra[: len(extra) // 2]
    return out


def _strengthen(c, margin):
    if z3.is_not(c):
        a = c.children()[0]
        if z3.is_app(a):
            k = a.decl().kind()
            ch = a.children()
            if k == z3.Z3_OP_LE and _arith_real(ch):  # not(a<=b) = a>b
                return ch[0] >= ch[1] + margin
            if k == z3.Z3_OP_GE and _arith_real(ch):
                return ch[0] <= ch[1] - margin
            if k == z3.Z3_OP_LT and _arith_real(ch):
                return ch[0] >= ch[1] + margin
            if k == z3.Z3_OP_GT and _arith_real(ch):
                return ch[0] <= ch[1] - margin
            if k == z3.Z3_OP_EQ and _arith_real(ch):
                return z3.Or(ch[0] >= ch[1] + margin, ch[0] <= ch[1] - margin)
        return c
    if z3.is_app(c):
        k = c.decl().kind()
        ch = c.children()
        if k == z3.Z3_OP_LT and _arith_real(ch):
            return ch[0] <= ch[1] - margin
        if k == z3.Z3_OP_GT and _arith_real(ch):
            return ch[0] >= ch[1] + margin
        if k == z3.Z3_OP_LE and _arith_real(ch):
            return ch[0] <= ch[1] - margin
        if k == z3.Z3_OP_GE and _arith_real(ch):
            return ch[0] >= ch[1] + margin
        if k == z3.Z3_OP_DISTINCT and _arith_real(ch) and len(ch) == 2:
            return z3.Or(ch[0] >= ch[1] + margin, ch[0] <= ch[1] - margin)
    return c


def _arith_real(ch):
    return len(ch) == 2 and all(z3.is_real(x) for x in ch)


def run_path(harness, params, prefix, opts):
    """Execute one path symbolically; decide its obligations; cross-check concretely."""
    from . import loader as loader_mod
    t0 = time.time()
    q0 = solve.STATS["queries"]
    ctx = Ctx(prefix, qtimeout=opts.get("qtimeout", 30.0))
    Ctx.cur = ctx
    ld = loader_mod.get_loader()
    ld.reset_for_path()
    ld.begin_path()
    env = SymEnv(ctx, ld)
    out = {"prefix": list(prefix), "status": "ok", "obligations": [], "children": []}
    exc = None
    try:
        with warnings.catch_warnings():
            warnings.simplefilter("ignore")
            with contextlib.redirect_stdout(io.StringIO()):
                harness(env, **params)
    except PathAbort:
        out["status"] = "infeasible"
    except Unsupported as e:
        out["status"] = "unsupported"
        out["why"] = str(e)[:300]
    except Expected:
        out["status"] = "expected-exception"
    except RecursionError as e:
        out["status"] = "unsupported"
        out["why"] = "recursion"
    except Exception as e:
        tb = traceback.extract_tb(e.__traceback__)
        where = ["%s:%d" % (f.filename, f.lineno) for f in tb]
        inside_sx = any("/verif/sx/" in w for w in where[-3:]) or _mentions_sym(e)
        out["status"] = "unsupported" if inside_sx else "exception"
        out["exception"] = "%s: %s" % (type(e).__name__, str(e)[:300])
        out["where"] = [w.replace("/repo/cryocat/", "") for w in where][-6:]
        out["why"] = out["exception"]
    finally:
        Ctx.cur = None
        env.cleanup()
    # children: flips of free decisions made beyond the prefix
    dec = ctx.decisions
    for i in range(len(prefix), len(dec)):
        if dec[i][0] is True and not dec[i][1]:
            out["children"].append([list(d) for d in dec[:i]] + [[False, False]])
    out["decisions"] = sum(1 for d in dec if not d[1])
    out["inconclusive_feasibility"] = len(ctx.inconclusive)
    pc = ctx.pc()
    # Late feasibility.  Branch pruning over non-linear cones only uses cheap abstractions, so a path may have been followed
    # although its path condition is unsatisfiable.  One real solver call over the conjuncts that mention only declared
    # inputs decides that now (unsat of a subset is unsat of the whole); the earliest unsatisfiable prefix is located by
    # bisection and the children below it are not spawned.  Such a path is reported as infeasible, its obligations are not
    # counted (they would hold vacuously).
    if out["status"] in ("ok", "exception", "unsupported") and opts.get("late_feasibility", True) and len(getattr(ctx, "dec_pos", [])) == len(dec):
        inputs_ = set(env.vars)
        idx_in = [k for k, c in enumerate(pc) if solve._syms(c) and solve._syms(c) <= inputs_]
        if idx_in and any(solve.is_nonlinear(pc[k]) for k in idx_in):
            lf_to = min(opts.get("qtimeout", 30.0), 6.0)
            r_f, _, _ = solve.check([pc[k] for k in idx_in], timeout=lf_to)
            if r_f == "unsat":
                lo, hi = 1, len(idx_in)          # smallest h with pc_in[:h] unsat
                while lo < hi:
                    mid = (lo + hi) // 2
                    r_m, _, _ = solve.check([pc[k] for k in idx_in[:mid]], timeout=lf_to)
                    if r_m == "unsat":
                        hi = mid
                    else:
                        lo = mid + 1
                t_bad = idx_in[lo - 1]             # trace index of the conjunct that makes the prefix unsatisfiable
                n_before = sum(1 for pos in ctx.dec_pos if pos <= t_bad)      # decisions inside the unsatisfiable prefix
                out["children"] = [ch for ch in out["children"] if len(ch) <= n_before]
                out["status"] = "infeasible"
                out["late_infeasible"] = True
    out["lines"] = ld.new_lines(feasible=out["status"] in ("ok", "exception", "unsupported", "expected-exception"))
    out["functions"] = sorted(ld.entered)
    want_cc = opts.get("crosscheck", True)
    otimeout = opts.get("otimeout", 60.0)
    if out["status"] == "ok":
        ob_budget = opts.get("path_obligation_budget", 150.0)
        ob_spent = 0.0
        for name, cond in env.obligations:
            if ob_spent > ob_budget:
                out["obligations"].append({"name": name, "result": "unknown", "solver": "budget", "seconds": 0.0})
                continue
            if z3.is_true(cond):
                out["obligations"].append({"name": name, "result": "unsat", "solver": "simplify", "seconds": 0.0})
                continue
            r = None
            # cheapest first: only the assumptions that talk about nothing but the obligation's own symbols
            gs = solve._syms(cond)
            sub = [a for a in pc if solve._syms(a) and solve._syms(a) <= gs]
            if sub and len(sub) < len(pc):
                r_s, _, info = solve.check(sub + [z3.Not(cond)], timeout=min(otimeout, 10.0))
                if r_s == "unsat":
                    r, m = "unsat", None
                    rel, rest = sub, []
            if r is None and sub is not None and len(pc) > 12:
                # second rung: widen the symbol set by the SMALL facts (<= 8 symbols) that touch the obligation's symbols
                # (contracts and lemma instances over named sub-terms), then take every assumption inside the widened set
                gs2 = set(gs)
                for a in pc:
                    sa = solve._syms(a)
                    if sa and len(sa) <= 8 and (sa & gs):
                        gs2 |= sa
                if gs2 != set(gs):
                    sub2 = [a for a in pc if solve._syms(a) and solve._syms(a) <= gs2]
                    if len(sub2) > len(sub) and len(sub2) < len(pc):
                        r_s, _, info = solve.check(sub2 + [z3.Not(cond)], timeout=min(otimeout, 15.0))
                        if r_s == "unsat":
                            r, m = "unsat", None
                            rel, rest = sub2, []
            if r is None and ctx.__dict__.get("heavy"):
                rel_l, _ = solve.slice_for(ctx.pc_light(), [cond])
                r_l, _, info = solve.check(rel_l + [z3.Not(cond)], timeout=otimeout)
                if r_l == "unsat":
                    r, m = "unsat", None
                    rel, rest = rel_l, []
            if r is None:
                rel, rest = solve.slice_for(pc, [cond])
                r, m, info = solve.check(rel + [z3.Not(cond)], timeout=otimeout, want_model=True)
            if r == "sat" and m is not None and rest:
                r_rest, m_rest, _ = solve.check(rest, timeout=otimeout, want_model=True)
                if m_rest:
                    for k_, v_ in m_rest.items():
                        m.setdefault(k_, v_)
            if r == "unknown" and sub and len(sub) < len(pc):
                # counterexample search in two steps: a model of the obligation's own (cheap) assumptions, then the rest of
                # the path condition with the obligation's symbols pinned to it
                r_s2, m_s2, _ = solve.check(sub + [z3.Not(cond)], timeout=min(otimeout, 10.0), want_model=True)
                if r_s2 == "sat" and m_s2:
                    fv = solve.free_vars(sub + [cond])
                    pins = []
                    for nm, val in m_s2.items():
                        if nm in fv and not isinstance(val, bool):
                            pins.append(fv[nm] == (z3.RealVal(str(val)) if z3.is_real(fv[nm]) else z3.IntVal(int(val))))
                    r_p, m_p, info_p = solve.check(rel + pins + [z3.Not(cond)], timeout=min(otimeout, 20.0), want_model=True)
                    if r_p == "sat" and m_p is not None:
                        r, m, info = "sat", m_p, info_p
            ob_spent += info.get("seconds", 0.0)
            ob = {"name": name, "result": r, "solver": info.get("solver"), "seconds": round(info.get("seconds", 0.0), 4)}
            if r == "sat":
                ob["model"] = _model_to_json(m)
                if m is not None:
                    ob["replay"] = run_concrete(harness, params, m)
                    if name not in ob["replay"].get("failed", []) and ob["replay"]["status"] != "exception":
                        # second chance: a model in the interior of the violating region
                        strong = [_strengthen(c, z3.RealVal("1/1000")) for c in rel + [z3.Not(cond)]]
                        r2, m2, _ = solve.check(strong, timeout=otimeout, want_model=True)
                        if r2 == "sat" and m2 is not None:
                            for k_, v_ in m.items():
                                m2.setdefault(k_, v_)
                            rp2 = run_concrete(harness, params, m2)
                            if name in rp2.get("failed", []) or rp2["status"] == "exception":
                                ob["model"] = _model_to_json(m2)
                                ob["replay"] = rp2
            out["obligations"].append(ob)
        out["info"] = env.info
    if out["status"] in ("ok", "exception", "unsupported") and want_cc:
        # a model of the path condition for the concrete cross-check / replay of the exception
        # witness input for the concrete run.  ConcEnv reads only the declared input variables, so when the path
        # condition carries auxiliary symbols (roots, Euler decompositions, named trig constants) in non-linear
        # constraints, the conjuncts over the inputs alone are solved instead (a projection: the concrete run is then
        # a test on a nearby input, not necessarily on this very path; a concrete failure is real either way)
        inputs = set(env.vars)
        pc_in = [c for c in pc if solve._syms(c) <= inputs]
        projected = False
        if len(pc_in) < len(pc) and any(solve.is_nonlinear(c) for c in pc if c not in pc_in):
            m, interior = _interior_model(pc_in, min(10.0, opts.get("qtimeout", 30.0)))
            projected = True
        else:
            m, interior = _interior_model(pc, opts.get("qtimeout", 30.0))
            if m is None and len(pc_in) < len(pc):
                m, interior = _interior_model(pc_in, min(10.0, opts.get("qtimeout", 30.0)))
                projected = True
        out["pc_model_projected"] = projected
        if m is not None:
            out["pc_model"] = _model_to_json(m)
            out["pc_model_interior"] = interior
            out["crosscheck"] = run_concrete(harness, params, m)
            out["sym_ob_names_hash"] = hashlib.sha256("|".join(sorted(n for n, _ in env.obligations)).encode()).hexdigest()[:16]
    def _open(o):       # not settled either way: unknown, or a counterexample that the concrete replay did not reproduce
        if o["result"] == "unknown":
            return True
        rp = o.get("replay")
        return o["result"] == "sat" and not (rp and (o["name"] in rp.get("failed", []) or rp.get("status") == "exception"))
    inconclusive_ob = out["status"] == "ok" and any(_open(o) for o in out["obligations"])
    if (out["status"] in ("unsupported", "exception") or inconclusive_ob) and want_cc and opts.get("fallback_models", 6) > 0 \
            and not (out.get("crosscheck") or {}).get("failed") and (out.get("crosscheck") or {}).get("status") != "exception":
        # The symbolic run could not finish this path.  Guard (not the deciding step): run the plain package on
        # several diversified models of the partial path condition; a concrete failure is a real counterexample.
        fb = []
        inputs_ = set(env.vars)
        pc_fb = [c for c in pc if solve._syms(c) <= inputs_] if inconclusive_ob else pc
        for dm in _diverse_models(pc_fb, env.vars, opts.get("fallback_models", 6), min(10.0, opts.get("qtimeout", 30.0)), seed=len(prefix)):
            rc = run_concrete(harness, params, dm)
            if rc["status"] == "exception" or rc.get("failed"):
                fb.append({"model": _model_to_json(dm), "result": rc})
                break
        out["fallback_runs"] = opts.get("fallback_models", 6)
        if fb:
            out["pc_model"] = fb[0]["model"]
            out["crosscheck"] = fb[0]["result"]
    out["nvars"] = len(env.vars)
    rot_ = sys.modules.get("sx.rotation")
    if rot_ is not None and getattr(rot_, "_LEMMAS", None):
        out["lemmas"] = sorted(k for k, v in rot_._LEMMAS.items() if v)
    out["queries"] = solve.STATS["queries"] - q0
    out["seconds"] = round(time.time() - t0, 3)
    out["pc_size"] = len(pc)
    return out


def _mentions_sym(e):
    s = str(e)
    return any(k in s for k in ("SNum", "SAngle", "SBool", "SSqrt", "LArray", "symbolic"))


# worker entry ---------------------------------------------------------------------------------
_W = {}


def _worker_init(harness_mod, harness_name, opts):
    import importlib
    mod = importlib.import_module(harness_mod)
    _W["mod"] = mod
    _W["opts"] = opts


def _worker_run(task):
    fn_name, params, prefix = task
    fn = getattr(_W["mod"], fn_name)
    try:
        return (fn_name, params, run_path(fn, params, prefix, _W["opts"]))
    except BaseException as e:  # harness infrastructure failure
        return (fn_name, params, {"prefix": list(prefix), "status": "harness-error", "why": "%s: %s" % (type(e).__name__, str(e)[:300]),
                                  "tb": traceback.format_exc()[-1500:], "obligations": [], "children": [], "queries": 0, "seconds": 0, "functions": []})


def explore(harness_mod, jobs, opts, workers=None, max_paths=2000, budget_s=None, log=None, _retry=True):
    """jobs: list of (fn_name, params).  Explores every path of every job (bounded by max_paths per job
    and a global wall budget).  Returns list of (fn_name, params, [path results], complete?)."""
    res = _explore_once(harness_mod, jobs, opts, workers, max_paths, budget_s, log)
    done = sum(1 for _, _, paths, _ in res for p_ in paths if not str(p_.get("why", "")).startswith("path still running"))
    if _retry and done == 0 and any(paths for _, _, paths, _ in res):
        # not one path came back before the watchdog fired: the worker pool never got going (observed once, under heavy load);
        # one fresh attempt with a new pool - a second failure is reported as it is
        return explore(harness_mod, jobs, opts, workers, max_paths, budget_s, log, _retry=False)
    return res


def _explore_once(harness_mod, jobs, opts, workers=None, max_paths=2000, budget_s=None, log=None):
    workers = workers or min(16, os.cpu_count() or 4)
    t0 = time.time()
    results = {i: [] for i in range(len(jobs))}
    pending = {}
    counts = {i: 0 for i in range(len(jobs))}
    complete = {i: True for i in range(len(jobs))}
    queue = [(i, []) for i in reversed(range(len(jobs)))]      # LIFO: job 0 first, depth-first inside a job
    ctxm = mp.get_context("fork")
    with cf.ProcessPoolExecutor(max_workers=workers, mp_context=ctxm, initializer=_worker_init, initargs=(harness_mod, None, opts)) as ex:
        def submit():
            while queue and len(pending) < workers * 2:
                # earlier jobs first (small jobs are listed first and must not be starved), depth-first inside a job
                # fair share: the job that has run the fewest paths so far goes next (small jobs complete early, large ones
                # share what is left of the budget), depth-first inside a job
                best = min(range(len(queue)), key=lambda q: (counts[queue[q][0]], queue[q][0], -len(queue[q][1])))
                i, prefix = queue.pop(best)
                if counts[i] >= max_paths or (budget_s and time.time() - t0 > budget_s):
                    complete[i] = False
                    continue
                counts[i] += 1
                fut = ex.submit(_worker_run, (jobs[i][0], jobs[i][1], prefix))
                pending[fut] = i
        submit()
        hard = (budget_s + max(90.0, 0.5 * budget_s)) if budget_s else None      # paths still running then are abandoned
        while pending:
            done, _ = cf.wait(list(pending), timeout=(15.0 if hard else None), return_when=cf.FIRST_COMPLETED)
            if hard and not done and time.time() - t0 > hard:
                # watchdog: a path that runs far beyond the wall budget is given up (reported as unsupported, job incomplete);
                # the workers are terminated so that the check ends
                for fut, i in list(pending.items()):
                    complete[i] = False
                    results[i].append({"prefix": [], "status": "unsupported", "why": "path still running %d s after the wall budget: abandoned" % int(time.time() - t0 - budget_s),
                                       "obligations": [], "children": [], "queries": 0, "seconds": 0, "functions": []})
                pending.clear()
                queue[:] = []
                for pr in list(getattr(ex, "_processes", {}).values()):
                    try:
                        pr.terminate()
                    except Exception:      # noqa
                        pass
                break
            for fut in done:
                i = pending.pop(fut)
                try:
                    _, _, res = fut.result()
                except Exception as e:
                    res = {"prefix": [], "status": "harness-error", "why": "worker died: %s" % e, "obligations": [], "children": [], "queries": 0, "seconds": 0, "functions": []}
                results[i].append(res)
                for ch in res.get("children", []):
                    queue.append((i, ch))
            submit()
    return [(jobs[i][0], jobs[i][1], results[i], complete[i] and not any(q[0] == i for q in queue)) for i in range(len(jobs))]
