"""./check Cxx [--tier quick|thorough] [--seed N] [--replay file] [--only fn] — runs one property's harness."""
import argparse, hashlib, importlib, json, os, re, sys, time, traceback
from fractions import Fraction

ROOT = os.path.dirname(os.path.dirname(os.path.abspath(__file__)))
sys.path.insert(0, ROOT)
if os.environ.get("SX_REPO"):        # development aid: analyse a scratch copy of the repository (twin modules AND the plain package come from it)
    sys.path.insert(0, os.environ["SX_REPO"])

from sx import explore, solve  # noqa: E402

EXIT_HARNESS = 3


def load_known():
    p = os.path.join(ROOT, "known_findings.json")
    if not os.path.exists(p):
        return []
    return json.load(open(p)).get("findings", [])


def match_known(known, prop, fn, params, obligation, exception=None):
    for k in known:
        if k.get("property") != prop or k.get("status", "open") != "open":
            continue
        if k.get("fn") and k["fn"] != fn:
            continue
        if k.get("obligation") and not re.search(k["obligation"], obligation or ""):
            continue
        if k.get("exception") and not re.search(k["exception"], exception or ""):
            continue
        pp = k.get("params") or {}
        if any(params.get(a) != b for a, b in pp.items()):
            continue
        return k
    return None


def write_replay(prop, fn, params, obligation, model, extra=None):
    os.makedirs(os.path.join(ROOT, "replay"), exist_ok=True)
    rec = {"property": prop, "fn": fn, "params": params, "obligation": obligation, "model": model}
    if extra:
        rec.update(extra)
    h = hashlib.sha256(json.dumps(rec, sort_keys=True, default=str).encode()).hexdigest()[:12]
    path = os.path.join(ROOT, "replay", "%s-%s.json" % (prop, h))
    json.dump(rec, open(path, "w"), indent=1, default=str)
    return path


def do_replay(path):
    rec = json.load(open(path))
    mod = importlib.import_module("harness." + rec["property"])
    fn = getattr(mod, rec["fn"])
    res = explore.run_concrete(fn, rec["params"], explore.model_from_json(rec["model"]))
    print(json.dumps(res, indent=1, default=str))
    bad = res["status"] == "exception" or (rec.get("obligation") in res.get("failed", [])) or (res.get("failed") and not rec.get("obligation"))
    print("REPRODUCED" if bad else "NOT-REPRODUCED")
    return 1 if bad else 0


def concrete_confirms(mod, fn_name, params, model_json, obligation=None, want_exception=None):
    fn = getattr(mod, fn_name)
    res = explore.run_concrete(fn, params, explore.model_from_json(model_json))
    if want_exception is not None:
        ok = res["status"] == "exception" and res.get("exception", "").split(":")[0] == want_exception.split(":")[0]
        return ok, res
    if res["status"] == "exception":
        return True, res
    if obligation is None:
        return bool(res.get("failed")), res
    return obligation in res.get("failed", []), res


def main(argv=None):
    ap = argparse.ArgumentParser()
    ap.add_argument("prop")
    ap.add_argument("--tier", default=os.environ.get("VERIF_TIER", "quick"))
    ap.add_argument("--seed", type=int, default=None)
    ap.add_argument("--replay")
    ap.add_argument("--only")
    ap.add_argument("--workers", type=int, default=None)
    ap.add_argument("-v", action="store_true")
    args = ap.parse_args(argv)
    if os.environ.get("VERIF_TIER"):
        args.tier = os.environ["VERIF_TIER"]
    seed = args.seed
    if os.environ.get("VERIF_SEED"):
        seed = int(os.environ["VERIF_SEED"])
    if seed is None:
        seed = 0
    if args.replay:
        return do_replay(args.replay)
    prop = args.prop
    t0 = time.time()
    mod = importlib.import_module("harness." + prop)
    if hasattr(mod, "run") and not args.only:   # harness with its own runner (Tier S conditions next to explorer jobs)
        return mod.run(args.tier, seed, args)
    jobs = mod.jobs(args.tier, seed)
    if args.only:
        jobs = [j for j in jobs if re.search(args.only, j[0])]
    opts = dict(getattr(mod, "OPTS", {}))
    if args.tier == "thorough":
        for k in ("max_paths", "budget_s"):      # the quick caps do not carry over; thorough caps come from OPTS_THOROUGH
            opts.pop(k, None)
        opts.update(getattr(mod, "OPTS_THOROUGH", {}))
    opts.setdefault("qtimeout", 20.0 if args.tier == "quick" else 60.0)
    opts.setdefault("otimeout", 30.0 if args.tier == "quick" else 300.0)
    opts.setdefault("path_obligation_budget", 120.0 if args.tier == "quick" else 1500.0)
    max_paths = opts.pop("max_paths", 600 if args.tier == "quick" else 6000)
    budget = opts.pop("budget_s", 200 if args.tier == "quick" else 1200)
    res = explore.explore("harness." + prop, jobs, opts, workers=args.workers, max_paths=max_paths, budget_s=budget)
    known = load_known()
    from sx import report
    return report.finish(prop, mod, args.tier, seed, res, known, t0, verbose=args.v)


if __name__ == "__main__":
    sys.exit(main())
