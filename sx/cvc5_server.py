"""Child process: reads SMT-LIB file paths on stdin, answers with solver output then a ##END line."""
import sys
import cvc5


def run(path):
    text = open(path).read()
    slv = cvc5.Solver()
    slv.setOption("produce-models", "true")
    if "(set-logic" not in text:
        slv.setLogic("ALL")
    p = cvc5.InputParser(slv)
    p.setStringInput(cvc5.InputLanguage.SMT_LIB_2_6, text, "q")
    sm = p.getSymbolManager()
    out = []
    while True:
        cmd = p.nextCommand()
        if cmd.isNull():
            break
        o = str(cmd.invoke(slv, sm)).strip()
        if o:
            out.append(o)
    return "\n".join(out)


for line in sys.stdin:
    path = line.strip()
    if not path:
        continue
    try:
        res = run(path)
    except Exception as e:  # noqa
        res = "ERR %s" % (str(e).replace("\n", " ")[:200],)
    sys.stdout.write(res + "\n##END\n")
    sys.stdout.flush()
