"""Child process: reads SMT-LIB file paths on stdin, answers with solver output then a ##END line."""
import sys
import cvc5


def _die_with_parent():
    """The server must never outlive the worker that started it (workers are terminated, not shut down, when a pool is torn
    down): ask the kernel to kill this process when the parent goes away, and leave at once if it is gone already."""
    import ctypes, os, signal
    try:
        ctypes.CDLL("libc.so.6", use_errno=True).prctl(1, signal.SIGKILL)      # PR_SET_PDEATHSIG
    except Exception:      # noqa
        pass
    if os.getppid() == 1:
        os._exit(0)


_die_with_parent()


def run(path):
    text = open(path).read()
    slv = cvc5.Solver()
    slv.setOption("produce-models", "true")
    slv.setOption("tlimit-per", "600000")          # ms: no query may run longer than 10 minutes, whatever the caller does
    if "(set-logic" not in text:
        slv.setLogic("ALL")
    p = cvc5.InputParser(slv)
    p.setStringInput(cvc5.InputLanguage.SMT_LIB_2_6, text, "q")
    sm = p.getSymbolManager()
    out = []
    while True:
        cmd = p.nextCommand()
        if cmd.isNull():
            break
        o = str(cmd.invoke(slv, sm)).strip()
        if o:
            out.append(o)
    return "\n".join(out)


for line in sys.stdin:
    path = line.strip()
    if not path:
        continue
    try:
        res = run(path)
    except Exception as e:  # noqa
        res = "ERR %s" % (str(e).replace("\n", " ")[:200],)
    sys.stdout.write(res + "\n##END\n")
    sys.stdout.flush()
