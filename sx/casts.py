"""Uninterpreted numeric casts (DESIGN 2.2 SCast)."""
import numpy as _np
import z3
from . import core, npx
from .core import SNum, zreal, ctx, Unsupported

_NAMES = {_np.single: "f32", _np.float32: "f32", "float32": "f32", "single": "f32", _np.int16: "i16", _np.int8: "i8", "int16": "i16", "int8": "i8"}


def cast_name(t):
    try:
        if t in _NAMES:
            return _NAMES[t]
    except TypeError:
        pass
    if t is int or t == "int":
        return "i64"
    try:
        dt = _np.dtype(t)
        return {"float32": "f32", "int16": "i16", "int8": "i8", "float64": None, "int64": "i64", "int32": "i32"}.get(dt.name, dt.name)
    except TypeError:
        raise Unsupported("cast to %r" % (t,))


def sx_trunc(v):
    """C-style float->int conversion: truncation toward zero (in-range values)."""
    e = zreal(v)
    fl = core.sx_floor(SNum(e)).e
    nfl = core.sx_floor(SNum(-e)).e
    return SNum(z3.If(e >= 0, fl, -nfl))


def _is_int_term(e):
    """syntactic check: a real term built from to_real(int terms), integer numerals, + - *"""
    e = z3.simplify(e)
    if z3.is_int(e):
        return True
    if z3.is_rational_value(e):
        return e.denominator_as_long() == 1
    if z3.is_app(e):
        k = e.decl().kind()
        if k == z3.Z3_OP_TO_REAL:
            return True
        if k in (z3.Z3_OP_ADD, z3.Z3_OP_SUB, z3.Z3_OP_MUL, z3.Z3_OP_UMINUS):
            return all(_is_int_term(c) for c in e.children())
    return False


def cast_scalar(v, name):
    if name is None:
        return v
    if not core.is_sym(v):
        real = {"f32": _np.float32, "i16": _np.int16, "i8": _np.int8, "i64": _np.int64, "i32": _np.int32}.get(name)
        return real(v).item() if real is not None else v
    if name in ("i64", "i32", "int"):
        if isinstance(v, SNum) and z3.is_int(v.e):
            return v                              # already an integer (symbolic box sizes, centres, indices)
        if isinstance(v, SNum) and _is_int_term(v.e):
            return SNum(z3.simplify(z3.ToInt(v.e)))   # integer-valued real term (e.g. int + 1.0): stays symbolic
        return core.concretize(sx_trunc(v))      # integer results are used as indices: fork over the feasible values
    f = core.ufun(name, 1)
    e = zreal(v)
    # idempotence instance for this argument
    ctx().assume(f(f(e)) == f(e))
    return SNum(f(e))


def astype(x, t):
    name = cast_name(t)
    xa = npx.obj(x)
    out = _np.empty(xa.shape, dtype=object)
    for idx in _np.ndindex(*xa.shape):
        out[idx] = cast_scalar(xa[idx], name)
    if name in ("i64", "i32", "int"):
        if any(core.is_sym(v) for v in out.flat):
            return out
        return out.astype(_np.int64)
    from . import fs
    full = {"f32": "float32", "i16": "int16", "i8": "int8"}.get(name)
    return fs.tag(out, full) if full else out
