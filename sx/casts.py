"""Uninterpreted numeric casts (DESIGN 2.2 SCast)."""
import numpy as _np
import z3
from . import core, npx
from .core import SNum, zreal, ctx, Unsupported

_NAMES = {_np.single: "f32", _np.float32: "f32", "float32": "f32", "single": "f32", _np.int16: "i16", _np.int8: "i8", "int16": "i16", "int8": "i8"}


def cast_name(t):
    try:
        if t in _NAMES:
            return _NAMES[t]
    except TypeError:
        pass
    try:
        dt = _np.dtype(t)
        return {"float32": "f32", "int16": "i16", "int8": "i8", "float64": None, "int64": "i64", "int32": "i32"}.get(dt.name, dt.name)
    except TypeError:
        raise Unsupported("cast to %r" % (t,))


def cast_scalar(v, name):
    if name is None:
        return v
    f = core.ufun(name, 1)
    e = zreal(v)
    # idempotence instance for this argument
    ctx().assume(f(f(e)) == f(e))
    return SNum(f(e))


def astype(x, t):
    name = cast_name(t)
    xa = npx.obj(x)
    out = _np.empty(xa.shape, dtype=object)
    for idx in _np.ndindex(*xa.shape):
        out[idx] = cast_scalar(xa[idx], name)
    return out
