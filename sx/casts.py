"""Uninterpreted numeric casts (DESIGN 2.2 SCast)."""
import numpy as _np
import z3
from . import core, npx
from .core import SNum, zreal, ctx, Unsupported

_NAMES = {_np.single: "f32", _np.float32: "f32", "float32": "f32", "single": "f32", _np.int16: "i16", _np.int8: "i8", "int16": "i16", "int8": "i8"}


def cast_name(t):
    try:
        if t in _NAMES:
            return _NAMES[t]
    except TypeError:
        pass
    if t is int or t == "int":
        return "i64"
    try:
        dt = _np.dtype(t)
        return {"float32": "f32", "int16": "i16", "int8": "i8", "float64": None, "int64": "i64", "int32": "i32"}.get(dt.name, dt.name)
    except TypeError:
        raise Unsupported("cast to %r" % (t,))


def sx_trunc(v):
    """C-style float->int conversion: truncation toward zero (in-range values)."""
    e = zreal(v)
    fl = core.sx_floor(SNum(e)).e
    nfl = core.sx_floor(SNum(-e)).e
    return SNum(z3.If(e >= 0, fl, -nfl))


def cast_scalar(v, name):
    if name is None:
        return v
    if not core.is_sym(v):
        real = {"f32": _np.float32, "i16": _np.int16, "i8": _np.int8, "i64": _np.int64, "i32": _np.int32}.get(name)
        return real(v).item() if real is not None else v
    if name in ("i64", "i32", "int"):
        return core.concretize(sx_trunc(v))      # integer results are used as indices: fork over the feasible values
    f = core.ufun(name, 1)
    e = zreal(v)
    # idempotence instance for this argument
    ctx().assume(f(f(e)) == f(e))
    return SNum(f(e))


def astype(x, t):
    name = cast_name(t)
    xa = npx.obj(x)
    out = _np.empty(xa.shape, dtype=object)
    for idx in _np.ndindex(*xa.shape):
        out[idx] = cast_scalar(xa[idx], name)
    if name in ("i64", "i32", "int"):
        return out.astype(_np.int64)
    from . import fs
    full = {"f32": "float32", "i16": "int16", "i8": "int8"}.get(name)
    return fs.tag(out, full) if full else out
