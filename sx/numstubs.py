"""Numerics-library stubs with contracts (DESIGN 2.4): Gaussian blur, FFTs (opaque linear operators), affine_transform
(exact for integral maps), downscale_local_mean."""
import types
import numpy as _np
import z3
from . import core, larray, solve
from .core import SNum, ctx, zterm, Unsupported
from .larray import LArray, isint


def prove_range(arr, lo, hi):
    """Solver check: every element of the lazy array lies in [lo,hi] (one fresh symbolic index)."""
    c = ctx()
    k = next(c.fresh)
    idx, cons = [], []
    for a, n in enumerate(arr.shape):
        j = z3.Int("rngidx%d!%d" % (a, k))
        idx.append(SNum(j))
        cons.append(j >= 0)
        cons.append(j < zterm(n) if core.is_sym(n) else j < int(n))
    n_before = len(c.trace)
    v = larray._to_num(arr.at(idx))
    extra = [t[0] if t[1] else z3.Not(t[0]) for t in c.trace[n_before:]]    # axioms added while evaluating
    e = core.zreal(v)
    r, _, _ = solve.check(c.pc() + cons + [z3.Or(e < lo, e > hi)], timeout=c.qtimeout)
    return r == "unsat"


def content_key(arr):
    """A name for the *content* of a lazy array: hash of its element term at canonical index variables, so that two
    arrays built by the same computation get the same opaque operator results (functions of equal inputs are equal)."""
    import hashlib
    idx = [SNum(z3.Int("canon_idx%d" % a)) for a in range(len(arr.shape))]
    c = ctx()
    n0 = len(c.trace)
    v = larray._to_num(arr.at(idx))
    del c.trace[n0:]          # evaluation at the canonical index must not leave axioms behind
    t = z3.simplify(core.zreal(v))
    canon_s = canon(t)
    shp = ",".join(str(z3.simplify(zterm(s))) if core.is_sym(s) else str(int(s)) for s in arr.shape)
    return hashlib.sha256((canon_s + "|" + shp).encode()).hexdigest()[:12]


_AC = None


def canon(e, memo=None):
    """canonical string of a term: arguments of commutative operators are sorted (z3's simplifier orders them by
    internal ids, which differ between two constructions of the same term)"""
    if memo is None:
        memo = {}
    i = e.get_id()
    if i in memo:
        return memo[i]
    if not z3.is_app(e) or e.num_args() == 0:
        r = e.sexpr()
    else:
        k = e.decl().kind()
        ch = [canon(c, memo) for c in e.children()]
        if k in (z3.Z3_OP_AND, z3.Z3_OP_OR, z3.Z3_OP_ADD, z3.Z3_OP_MUL, z3.Z3_OP_EQ, z3.Z3_OP_DISTINCT):
            ch = sorted(ch)
        r = "(" + e.decl().name() + " " + " ".join(ch) + ")"
    memo[i] = r
    return r


class FiltersStub(types.ModuleType):
    def __init__(self):
        super().__init__("skimage.filters")

    def __getattr__(self, name):
        import skimage.filters
        return getattr(skimage.filters, name)

    @staticmethod
    def gaussian(image, sigma=1, **kw):
        if not isinstance(image, LArray):
            import skimage.filters
            from . import npx
            return skimage.filters.gaussian(npx._demote(image) if isinstance(image, _np.ndarray) else image, sigma=sigma, **kw)
        # contract: a normalised non-negative kernel -> every output value lies within the range of the input
        rng = (0, 1) if prove_range(image, 0, 1) else None
        out = larray.uf_array("gauss_s%s_%s" % (str(sigma).replace(".", "p"), content_key(image)), image.shape, "float64", rng=rng)
        out.opaque = ("gaussian", image.version, sigma, tuple(sorted(kw.items())))
        return out


FILTERS = FiltersStub()


def downscale_local_mean(image, factors, cval=0, clip=True):
    """skimage.transform.downscale_local_mean: mean over blocks, the image being padded with `cval` up to a multiple
    of the block size."""
    if not isinstance(image, LArray):
        import skimage.transform
        return skimage.transform.downscale_local_mean(image, factors, cval=cval)
    factors = tuple(int(f) for f in factors)
    sf, ss = image.fn, image.shape
    oshape = []
    for n, f in zip(ss, factors):
        oshape.append(n if f == 1 else (n + (f - 1)) // f)
    count = 1
    for f in factors:
        count *= f

    def g(idx):
        import itertools
        tot = 0
        for d in itertools.product(*[range(f) for f in factors]):
            src = [i * f + dd if f != 1 else i for i, f, dd in zip(idx, factors, d)]
            inb = larray.s_and(*[(sidx < n) for sidx, n, f in zip(src, ss, factors) if f != 1])
            v = sf(tuple(larray.as_index(x) for x in src)) if inb is True else (cval if inb is False else None)
            if v is None:
                # guarded read: evaluate only under the in-bounds condition
                v = larray.s_ite(inb, sf(tuple(larray.as_index(x) for x in src)), cval)
            tot = tot + larray._to_num(v)
        return tot / count
    return LArray(oshape, g, "float64")


def affine_transform(input, matrix, offset=0.0, output_shape=None, output=None, order=3, mode="constant", cval=0.0, prefilter=True):
    """scipy.ndimage.affine_transform: out[o] = in[M o + t] (homogeneous matrix).  Exact when M is a signed permutation
    with integer translation on the evaluated case (no interpolation happens at integer source positions); otherwise an
    opaque operator that is a function of (input content, matrix content)."""
    if not isinstance(input, LArray):
        import scipy.ndimage
        from . import npx
        return scipy.ndimage.affine_transform(input, npx._demote(_np.asarray(matrix, dtype=object)) if isinstance(matrix, _np.ndarray) and matrix.dtype == object else matrix,
                                              offset=offset, output_shape=output_shape, output=output, order=order, mode=mode, cval=cval, prefilter=prefilter)
    M = _np.asarray(matrix, dtype=object)
    nd = input.ndim
    if M.shape != (nd + 1, nd + 1):
        raise Unsupported("affine_transform matrix shape %s" % (M.shape,))
    lin = [[M[i, j] for j in range(nd)] for i in range(nd)]
    tr = [M[i, nd] for i in range(nd)]
    integral = True
    for row in lin:
        for v in row:
            if core.is_sym(v):
                vs = z3.simplify(core.zreal(v))
                if not (z3.is_rational_value(vs) and vs.denominator_as_long() == 1):
                    integral = False
            elif float(v) != round(float(v)):
                integral = False
    shape = input.shape if output is None else output.shape
    sf, ss = input.fn, input.shape
    if integral and mode == "constant":
        L = [[int(round(_cval(v))) for v in row] for row in lin]

        def fn(idx):
            src = []
            for i in range(nd):
                acc = tr[i]
                for j in range(nd):
                    if L[i][j] != 0:
                        acc = acc + L[i][j] * idx[j]
                src.append(acc)
            src = [_int_index(v) for v in src]
            inb = larray.s_and(*[larray.s_and(v >= 0, v < n) for v, n in zip(src, ss)])
            if inb is True:
                return sf(tuple(larray.as_index(v) for v in src))
            if inb is False:
                return cval
            return larray.s_ite(inb, sf(tuple(larray.as_index(v) for v in src)), cval)
        res_fn = fn
    else:
        import hashlib
        mkey = hashlib.sha256("|".join(canon(z3.simplify(core.zreal(v))) if core.is_sym(v) else repr(float(v)) for v in M.flat).encode()).hexdigest()[:12]
        f = z3.Function("affine_%s_%s_o%d" % (content_key(input), mkey, order), *([z3.IntSort()] * nd + [z3.RealSort()]))
        res_fn = lambda idx: SNum(f(*[zterm(i) if core.is_sym(i) else z3.IntVal(int(i)) for i in idx]))
    if output is not None:
        if not isinstance(output, LArray):
            raise Unsupported("affine_transform into a concrete output array from a lazy input")
        output._set(res_fn)
        return None
    return LArray(shape, res_fn, input.dtype_tag)


def _cval(v):
    if core.is_sym(v):
        t = z3.simplify(core.zreal(v))
        return t.numerator_as_long() / t.denominator_as_long()
    return float(v)


def _int_index(v):
    """translation terms are real-sorted integers (e.g. N//2 stored in a float matrix): bring them back to Int"""
    if isint(v):
        return int(v)
    if isinstance(v, (float, _np.floating)):
        if float(v).is_integer():
            return int(v)
        raise Unsupported("non-integral source index")
    e = z3.simplify(core.zterm(v))
    if z3.is_int(e):
        return larray.as_index(SNum(e))
    from . import casts
    if casts._is_int_term(e):
        return larray.as_index(SNum(z3.simplify(z3.ToInt(e))))
    raise Unsupported("non-integral symbolic source index")


def substitute(short, g):
    import skimage.filters, numpy.fft, skimage.transform, scipy.ndimage
    subs = []
    for name, val in list(g.items()):
        if val is skimage.filters:
            g[name] = FILTERS; subs.append(name)
        elif val is numpy.fft:
            g[name] = FFT; subs.append(name)
        elif val is skimage.transform.downscale_local_mean:
            g[name] = downscale_local_mean; subs.append(name)
        elif val is scipy.ndimage.affine_transform:
            g[name] = affine_transform; subs.append(name)
    return subs


# ---------------------------------------------------------------------------------------------
# FFT as an opaque linear operator; fftshift/ifftshift are exact index maps


class SpecArray(LArray):
    """FFT(src), possibly circularly shifted and multiplied by a real gain array:
       element(idx) = F[(idx + offs) mod n] * gain(idx)."""

    def __init__(self, src, gain=None, kind="fftn", offs=None):
        self.src, self.gain, self.kind = src, gain, kind
        nd = len(src.shape)
        self.offs = tuple(offs) if offs is not None else (0,) * nd
        f = z3.Function("%s_of_v%d" % (kind, src.version), *([z3.IntSort()] * nd + [z3.RealSort()]))
        shp = src.shape

        def fn(idx, f=f):
            src_idx = [_shift_index(i, n, o) if not (isint(o) and o == 0) else i for i, n, o in zip(idx, shp, self.offs)]
            t = SNum(f(*[zterm(i) if core.is_sym(i) else z3.IntVal(int(i)) for i in src_idx]))
            return t * self.gain.at(idx) if self.gain is not None else t
        LArray.__init__(self, src.shape, fn, "complex128")

    def _times(self, o):
        if isinstance(o, SpecArray):
            raise Unsupported("product of two spectra")
        if isinstance(o, (LArray, int, float, SNum, _np.ndarray)):
            g = o if isinstance(o, LArray) else None
            if g is None:
                g = larray.from_numpy(o) if isinstance(o, _np.ndarray) else larray.full(self.shape, o)
            if not larray._same_shape(g.shape, self.shape):
                raise ValueError("operands could not be broadcast together with shapes %s %s" % (self.shape, g.shape))
            return SpecArray(self.src, g if self.gain is None else self.gain * g, self.kind, self.offs)
        return NotImplemented

    def __mul__(self, o): return self._times(o)
    def __rmul__(self, o): return self._times(o)

    def shifted(self, axes, forward):
        offs = list(self.offs)
        for k in axes:
            n = self.shape[k]
            amount = (n - n // 2) if forward else (n // 2)
            offs[k] = _norm_off(offs[k] + amount, n)
        gain = _shift(self.gain, axes, forward) if self.gain is not None else None
        return SpecArray(self.src, gain, self.kind, offs)

    def unshifted(self):
        return all(isint(o) and o == 0 for o in self.offs)


def _norm_off(o, n):
    if isint(o) and isint(n):
        return o % n
    t = z3.simplify(zterm(o) - zterm(n))
    if z3.is_int_value(t) and t.as_long() == 0:
        return 0
    t0 = z3.simplify(zterm(o))
    if z3.is_int_value(t0) and t0.as_long() == 0:
        return 0
    return larray.as_index(SNum(t0))


class FilteredArray(LArray):
    """IFFT(FFT(src) * gain): opaque values, but remembers `src` and `gain` (the transfer function)."""

    def __init__(self, spec, kind):
        if not spec.unshifted():
            raise Unsupported("inverse FFT of a spectrum that is still circularly shifted")
        self.src, self.gain, self.kind = spec.src, spec.gain, (spec.kind, kind)
        nd = len(spec.shape)
        # the filtered array is a function of (input content, gain content): name it after both
        f = z3.Function("ifft_%s_%s" % (content_key(spec.src), content_key(spec.gain) if spec.gain is not None else "one"), *([z3.IntSort()] * nd + [z3.RealSort()]))
        LArray.__init__(self, spec.shape, lambda idx: SNum(f(*[zterm(i) if core.is_sym(i) else z3.IntVal(int(i)) for i in idx])), "complex128")

    @property
    def real(self):
        return self


def _shift_index(i, n, s):
    """(i + s) mod n for 0 <= i < n, 0 <= s <= n, as an if-then-else (no mod by a symbolic extent)"""
    if isint(i) and isint(n) and isint(s):
        return (i + s) % n
    v = i + s
    if isint(n) and isint(s) and s % n == 0:
        return i
    return larray.as_index(larray.s_ite(v < n, v, v - n))


def _shift(a, axes, forward):
    if not isinstance(a, LArray):
        return (_np.fft.fftshift if forward else _np.fft.ifftshift)(a, axes=axes)
    axes = list(range(a.ndim)) if axes is None else ([axes] if isint(axes) else list(axes))
    if isinstance(a, SpecArray):
        return a.shifted(axes, forward)
    sf, ss = a.fn, a.shape

    def g(idx):
        src = []
        for k, i in enumerate(idx):
            if k in axes:
                n = ss[k]
                half = n // 2
                # fftshift: out[i] = in[(i - n//2) mod n] = in[(i + (n - n//2)) mod n];  ifftshift: out[i] = in[(i + n//2) mod n]
                src.append(_shift_index(i, n, (n - half) if forward else half))
            else:
                src.append(i)
        return sf(tuple(src))
    return LArray(ss, g, a.dtype_tag)


class FFTStub(types.ModuleType):
    def __init__(self):
        super().__init__("numpy.fft")

    def __getattr__(self, name):
        return getattr(_np.fft, name)

    @staticmethod
    def fftn(a, *args, **k):
        if isinstance(a, LArray):
            return SpecArray(a, None, "fftn")
        return _np.fft.fftn(a, *args, **k)

    @staticmethod
    def ifftn(a, *args, **k):
        if isinstance(a, SpecArray):
            return FilteredArray(a, "ifftn")
        if isinstance(a, LArray):
            raise Unsupported("ifftn of a lazy array that is not FFT(x)*gain")
        return _np.fft.ifftn(a, *args, **k)

    @staticmethod
    def fft2(a, *args, **k):
        if isinstance(a, LArray):
            return SpecArray(a, None, "fft2")
        return _np.fft.fft2(a, *args, **k)

    @staticmethod
    def ifft2(a, *args, **k):
        if isinstance(a, SpecArray):
            return FilteredArray(a, "ifft2")
        if isinstance(a, LArray):
            raise Unsupported("ifft2 of a lazy array that is not FFT(x)*gain")
        return _np.fft.ifft2(a, *args, **k)

    @staticmethod
    def fftshift(a, axes=None):
        return _shift(a, axes, True)

    @staticmethod
    def ifftshift(a, axes=None):
        return _shift(a, axes, False)


FFT = FFTStub()
