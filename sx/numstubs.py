"""Numerics-library stubs with contracts (DESIGN 2.4): Gaussian blur, FFTs (opaque linear operators), affine_transform
(exact for integral maps), downscale_local_mean."""
import types
import numpy as _np
import z3
from . import core, larray, solve
from .core import SNum, ctx, zterm, Unsupported
from .larray import LArray, isint


def prove_range(arr, lo, hi):
    """Solver check: every element of the lazy array lies in [lo,hi] (one fresh symbolic index)."""
    c = ctx()
    k = next(c.fresh)
    idx, cons = [], []
    for a, n in enumerate(arr.shape):
        j = z3.Int("rngidx%d!%d" % (a, k))
        idx.append(SNum(j))
        cons.append(j >= 0)
        cons.append(j < zterm(n) if core.is_sym(n) else j < int(n))
    n_before = len(c.trace)
    v = larray._to_num(arr.at(idx))
    extra = [t[0] if t[1] else z3.Not(t[0]) for t in c.trace[n_before:]]    # axioms added while evaluating
    e = core.zreal(v)
    r, _, _ = solve.check(c.pc() + cons + [z3.Or(e < lo, e > hi)], timeout=c.qtimeout)
    return r == "unsat"


class FiltersStub(types.ModuleType):
    def __init__(self):
        super().__init__("skimage.filters")

    def __getattr__(self, name):
        import skimage.filters
        return getattr(skimage.filters, name)

    @staticmethod
    def gaussian(image, sigma=1, **kw):
        if not isinstance(image, LArray):
            import skimage.filters
            from . import npx
            return skimage.filters.gaussian(npx._demote(image) if isinstance(image, _np.ndarray) else image, sigma=sigma, **kw)
        # contract: a normalised non-negative kernel -> every output value lies within the range of the input
        rng = (0, 1) if prove_range(image, 0, 1) else None
        out = larray.uf_array("gauss_v%d" % image.version, image.shape, "float64", rng=rng)
        out.opaque = ("gaussian", image.version, sigma, tuple(sorted(kw.items())))
        return out


FILTERS = FiltersStub()


def substitute(short, g):
    import skimage.filters
    subs = []
    for name, val in list(g.items()):
        if val is skimage.filters:
            g[name] = FILTERS; subs.append(name)
    return subs
