"""Runs CrossHair conditions (Tier S) in parallel subprocesses and classifies their verdicts."""
import os, re, subprocess, sys, time, importlib, ast

ROOT = os.path.dirname(os.path.dirname(os.path.abspath(__file__)))


def launch(targets, per_condition_timeout):
    procs = []
    env = dict(os.environ, PYTHONPATH=ROOT + os.pathsep + os.environ.get("PYTHONPATH", ""), PYTHONHASHSEED="0")
    for t in targets:
        cmd = [sys.executable, "-m", "crosshair", "check", "--report_all", "--per_condition_timeout", str(per_condition_timeout), t]
        p = subprocess.Popen(cmd, stdout=subprocess.PIPE, stderr=subprocess.STDOUT, text=True, cwd=ROOT, env=env)
        procs.append((t, p, time.time()))
    return procs


def collect(procs, hard_timeout):
    out = []
    for t, p, t0 in procs:
        try:
            txt, _ = p.communicate(timeout=max(1, hard_timeout - (time.time() - t0)))
        except subprocess.TimeoutExpired:
            p.kill()
            txt, _ = p.communicate()
            txt = (txt or "") + "\nHARD-TIMEOUT"
        out.append((t, txt, time.time() - t0))
    return out


def classify(target, text):
    """-> (verdict, detail): verdict in confirmed / refuted / inconclusive"""
    if "Confirmed over all paths" in text:
        return "confirmed", None
    m = re.search(r"error: (.*)", text)
    if m:
        return "refuted", m.group(1).strip()
    return "inconclusive", (text.strip().splitlines() or ["no output"])[-1][:200]


def replay_call(target, detail):
    """Re-run the counterexample CrossHair printed (e.g. "false when calling f(text='# ')") on the plain function."""
    m = re.search(r"when calling (\w+)\((.*?)\)(?: \(which|$)", detail or "")
    if not m:
        return None, None
    modname, fn = target.rsplit(".", 1)
    mod = importlib.import_module(modname)
    try:
        call = ast.parse("f(%s)" % m.group(2), mode="eval").body
        kwargs = {k.arg: ast.literal_eval(k.value) for k in call.keywords}
        args = [ast.literal_eval(a) for a in call.args]
    except Exception:
        return None, None
    try:
        res = getattr(mod, fn)(*args, **kwargs)
    except Exception as e:       # an exception on an input inside the precondition is a failure of the condition too
        return False, {"args": args, "kwargs": kwargs, "exception": "%s: %s" % (type(e).__name__, e)}
    return bool(res), {"args": args, "kwargs": kwargs}
