"""Solver facade.

Every query is a fresh, non-incremental problem (DESIGN 2.6).  Linear queries are answered by z3
in-process; non-linear ones go to a portfolio of external processes (z3 5.1 CLI `z3-new` and a
persistent cvc5-wheel server) that are killed on wall-clock timeout.  `unknown`, timeouts and solver
errors are *inconclusive* and are never reported as success.
"""
import os, re, subprocess, sys, tempfile, time, threading, atexit, select
from fractions import Fraction
import z3

HERE = os.path.dirname(os.path.abspath(__file__))
STATS = {"queries": 0, "seconds": 0.0, "by_solver": {}, "unknown": 0, "nonlinear": 0}
QLOG = None  # optional list collecting (logic, seconds, result)

_nl_cache = {}


def is_nonlinear(e):
    """True if the z3 term contains a product/division/power of two non-numeral terms."""
    seen = set()
    stack = [e]
    while stack:
        t = stack.pop()
        i = t.get_id()
        if i in seen:
            continue
        seen.add(i)
        if z3.is_app(t):
            k = t.decl().kind()
            ch = t.children()
            if k == z3.Z3_OP_MUL:
                nn = [c for c in ch if not (z3.is_rational_value(c) or z3.is_int_value(c))]
                if len(nn) >= 2:
                    return True
            elif k in (z3.Z3_OP_DIV, z3.Z3_OP_IDIV, z3.Z3_OP_MOD, z3.Z3_OP_REM):
                if not (z3.is_rational_value(ch[1]) or z3.is_int_value(ch[1])):
                    return True
            elif k == z3.Z3_OP_POWER:
                return True
            stack.extend(ch)
    return False


def _val_to_fraction(v):
    if z3.is_int_value(v):
        return Fraction(v.as_long())
    if z3.is_rational_value(v):
        return Fraction(v.numerator_as_long(), v.denominator_as_long())
    if z3.is_algebraic_value(v):
        a = v.approx(20)
        return Fraction(a.numerator_as_long(), a.denominator_as_long())
    if z3.is_true(v):
        return True
    if z3.is_false(v):
        return False
    raise ValueError("cannot convert %r" % v)


def free_vars(exprs):
    out = {}
    seen = set()
    stack = list(exprs)
    while stack:
        t = stack.pop()
        i = t.get_id()
        if i in seen:
            continue
        seen.add(i)
        if z3.is_const(t) and t.decl().kind() == z3.Z3_OP_UNINTERPRETED:
            out[t.decl().name()] = t
        elif z3.is_app(t):
            stack.extend(t.children())
    return out


def _walk(e):
    seen = set()
    stack = [e]
    while stack:
        t = stack.pop()
        i = t.get_id()
        if i in seen:
            continue
        seen.add(i)
        yield t
        if z3.is_app(t):
            stack.extend(t.children())


def _mentions_int(e):
    return any(z3.is_int(t) for t in _walk(e))


def _mentions_real(e):
    return any(z3.is_real(t) for t in _walk(e))


def _has_uf(e):
    return any(z3.is_app(t) and t.decl().kind() == z3.Z3_OP_UNINTERPRETED and t.decl().arity() > 0 for t in _walk(e))


def slice_for(assertions, goals):
    """Cone of influence: the assertions sharing (transitively) a free symbol with `goals`.
    Sound for both verdicts provided the conjunction of `assertions` alone is satisfiable."""
    goal_syms = set()
    for g in goals:
        goal_syms |= set(_syms(g))
    infos = [(a, set(_syms(a))) for a in assertions]
    keep = [False] * len(infos)
    changed = True
    while changed:
        changed = False
        for i, (a, sy) in enumerate(infos):
            if not keep[i] and (sy & goal_syms or not sy):
                keep[i] = True
                if not sy <= goal_syms:
                    goal_syms |= sy
                    changed = True
    return [a for (a, _), k in zip(infos, keep) if k], [a for (a, _), k in zip(infos, keep) if not k]


_sym_cache = {}


def _syms(e):
    """names of uninterpreted constants AND functions occurring in e"""
    i = e.get_id()
    hit = _sym_cache.get(i)
    if hit is not None and hit[0].eq(e):     # ids are recycled after GC: keep the term alive and compare
        return hit[1]
    out = set()
    seen = set()
    stack = [e]
    while stack:
        t = stack.pop()
        j = t.get_id()
        if j in seen:
            continue
        seen.add(j)
        if z3.is_app(t):
            if t.decl().kind() == z3.Z3_OP_UNINTERPRETED:
                out.add(t.decl().name())
            stack.extend(t.children())
    if len(_sym_cache) > 200000:
        _sym_cache.clear()
    _sym_cache[i] = (e, frozenset(out))
    return _sym_cache[i][1]


# ---------------------------------------------------------------------------------------------
# s-expression model parsing for the external solvers

_tok = re.compile(r"\(|\)|[^\s()]+")


def _parse_sexpr(text):
    toks = _tok.findall(text)
    pos = 0

    def rd():
        nonlocal pos
        t = toks[pos]
        pos += 1
        if t == "(":
            lst = []
            while toks[pos] != ")":
                lst.append(rd())
            pos += 1
            return lst
        return t

    out = []
    while pos < len(toks):
        out.append(rd())
    return out


def _num(s):
    if isinstance(s, str):
        if s in ("true", "false"):
            return s == "true"
        s2 = s.rstrip("?")
        return Fraction(s2)
    if not s:
        raise ValueError("empty")
    h = s[0]
    if h == "-" and len(s) == 2:
        return -_num(s[1])
    if h == "-":
        return _num(s[1]) - sum(_num(x) for x in s[2:])
    if h == "+":
        return sum(_num(x) for x in s[1:])
    if h == "*":
        r = Fraction(1)
        for x in s[1:]:
            r *= _num(x)
        return r
    if h == "/":
        return _num(s[1]) / _num(s[2])
    if h == "to_real":
        return _num(s[1])
    if h == "_" and len(s) > 1 and s[1] == "real_algebraic_number":
        # cvc5: (_ real_algebraic_number <poly, (lo, hi)>) -- tokens got split; find the interval
        flat = " ".join(_flat(s))
        m = re.search(r",\s*\(?\s*(-?\d+(?:/\d+)?)\s*,\s*(-?\d+(?:/\d+)?)\s*\)?\s*>", flat)
        if m:
            return (Fraction(m.group(1)) + Fraction(m.group(2))) / 2
        raise ValueError("algebraic")
    raise ValueError("cannot evaluate %r" % (s,))


def _flat(s):
    if isinstance(s, str):
        return [s]
    out = ["("]
    for x in s:
        out.extend(_flat(x))
    out.append(")")
    return out


def _parse_model(text):
    # text after the sat line: ((x v) (y v) ...)
    m = {}
    # cvc5 algebraic numbers contain '<' ',' '>' which our tokenizer keeps inside atoms; handle by regex first
    text = re.sub(
        r"\(_ real_algebraic_number <[^,]*,\s*\((-?[\d/]+),\s*(-?[\d/]+)\)>\)",
        lambda mo: "(/ (+ %s %s) 2)" % (_frac_sexpr(mo.group(1)), _frac_sexpr(mo.group(2))),
        text,
    )
    try:
        se = _parse_sexpr(text)
    except Exception:
        return None
    for blk in se:
        if not isinstance(blk, list):
            continue
        for pair in blk:
            if isinstance(pair, list) and len(pair) == 2 and isinstance(pair[0], str):
                try:
                    m[pair[0].strip("|")] = _num(pair[1])
                except Exception:
                    return None
    return m


def _frac_sexpr(s):
    f = Fraction(s)
    if f < 0:
        return "(- (/ %d %d))" % (-f.numerator, f.denominator)
    return "(/ %d %d)" % (f.numerator, f.denominator)


# ---------------------------------------------------------------------------------------------
# external back ends

_tmpdir = None


def _tmp():
    global _tmpdir
    if _tmpdir is None or not os.path.isdir(_tmpdir) or _tmp.pid != os.getpid():
        base = "/dev/shm" if os.path.isdir("/dev/shm") else tempfile.gettempdir()
        _tmpdir = tempfile.mkdtemp(prefix="sxq_", dir=base)
        _tmp.pid = os.getpid()
        atexit.register(_cleanup, _tmpdir)
    return _tmpdir


_tmp.pid = None


def _cleanup(d):
    try:
        for f in os.listdir(d):
            os.unlink(os.path.join(d, f))
        os.rmdir(d)
    except Exception:
        pass


class Cvc5Server:
    """Persistent child process running the cvc5 wheel; one query at a time; killed on timeout."""

    def __init__(self):
        self.p = None
        self.pid = None

    def start(self):
        self.p = subprocess.Popen(
            [sys.executable, "-u", os.path.join(HERE, "cvc5_server.py")],
            stdin=subprocess.PIPE,
            stdout=subprocess.PIPE,
            stderr=subprocess.DEVNULL,
            bufsize=0,
        )
        self.pid = os.getpid()
        self.buf = b""

    def submit(self, path):
        if self.p is None or self.p.poll() is not None or self.pid != os.getpid():
            self.start()
        self.buf = b""
        self.p.stdin.write((path + "\n").encode())

    def kill(self):
        if self.p is not None and self.pid == os.getpid():
            try:
                self.p.kill()
                self.p.wait()
            except Exception:
                pass
        self.p = None


_cvc5 = Cvc5Server()
atexit.register(_cvc5.kill)


def _external(smt_body, names, timeout, want_model, solvers=("z3", "cvc5")):
    """Run the portfolio; returns (result, model, solver)."""
    d = _tmp()
    base = os.path.join(d, "q%d_%d" % (os.getpid(), STATS["queries"]))
    getv = ""
    if want_model and names:
        getv = "(get-value (%s))\n" % " ".join("|%s|" % n for n in names)
    procs = {}
    t0 = time.time()
    if "z3" in solvers:
        f = base + ".z3.smt2"
        with open(f, "w") as fh:
            fh.write("(set-option :pp.decimal true)\n(set-option :pp.decimal_precision 20)\n" + smt_body + "(check-sat)\n" + getv)
        procs["z3"] = (subprocess.Popen(["z3-new", "-T:%d" % max(1, int(timeout)), f], stdout=subprocess.PIPE, stderr=subprocess.DEVNULL, text=True), f)
    cv_file = None
    if "cvc5" in solvers:
        cv_file = base + ".cvc5.smt2"
        with open(cv_file, "w") as fh:
            fh.write(smt_body + "(check-sat)\n" + getv)
        try:
            _cvc5.submit(cv_file)
        except Exception:
            _cvc5.kill()
            cv_file = None
    result, model, who = "unknown", None, None
    z3_done = "z3" not in procs
    cv_done = cv_file is None
    cv_buf = ""
    z3_out = None
    while time.time() - t0 < timeout and not (z3_done and cv_done):
        if not z3_done:
            p = procs["z3"][0]
            if p.poll() is not None:
                z3_out = p.stdout.read()
                z3_done = True
                r = z3_out.strip().split("\n", 1)[0].strip() if z3_out.strip() else "unknown"
                if _bad_errors(z3_out):
                    r = "unknown"
                if r in ("sat", "unsat"):
                    mdl = None
                    if r == "sat" and want_model:
                        mdl = _parse_model(z3_out.split("\n", 1)[1] if "\n" in z3_out else "")
                    if r == "unsat" or not want_model or mdl is not None:
                        result, model, who = r, mdl, "z3"
                        break
        if not cv_done:
            rl, _, _ = select.select([_cvc5.p.stdout], [], [], 0.005)
            if rl:
                chunk = os.read(_cvc5.p.stdout.fileno(), 65536)
                if chunk == b"":
                    cv_done = True
                    _cvc5.kill()
                else:
                    _cvc5.buf += chunk
                    if b"##END" in _cvc5.buf:
                        cv_done = True
                        txt = _cvc5.buf.decode(errors="replace").split("##END")[0].strip()
                        r = txt.split("\n", 1)[0].strip() if txt else "unknown"
                        if _bad_errors(txt) or txt.startswith("ERR"):
                            r = "unknown"
                        if r in ("sat", "unsat"):
                            mdl = None
                            if r == "sat" and want_model:
                                mdl = _parse_model(txt.split("\n", 1)[1] if "\n" in txt else "")
                            if r == "unsat" or not want_model or mdl is not None:
                                result, model, who = r, mdl, "cvc5"
                                break
        else:
            time.sleep(0.002)
    # clean up
    if "z3" in procs:
        p, f = procs["z3"]
        if p.poll() is None:
            p.kill()
            p.wait()
        try:
            os.unlink(f)
        except OSError:
            pass
    if cv_file is not None:
        if not cv_done:
            _cvc5.kill()
        try:
            os.unlink(cv_file)
        except OSError:
            pass
    return result, model, who


def _bad_errors(out):
    """Any error reported *before* the check-sat answer makes the answer untrustworthy (an old solver may
    drop an assertion it cannot parse).  After `unsat`, the get-value error 'model is not available' is benign."""
    lines = out.strip().split("\n")
    if not lines:
        return True
    first = lines[0].strip()
    if first not in ("sat", "unsat", "unknown", "timeout"):
        return True
    rest = "\n".join(lines[1:])
    if first == "unsat":
        return any(("(error" in ln or "ERR" in ln) and "model is not available" not in ln and "cannot get value" not in ln.lower() and "get-value" not in ln.lower() for ln in lines[1:])
    return "(error" in rest


def to_smt2(assertions, logic=None):
    s = z3.Solver()
    for a in assertions:
        s.add(a)
    txt = s.to_smt2()
    txt = txt.replace("(set-info :status unknown)\n", "").replace("(check-sat)\n", "")
    txt = re.sub(r"^; benchmark.*\n", "", txt)
    return ("(set-logic %s)\n" % logic if logic else "") + txt


_lin_vars = {}


def linearize(assertions, keep_squares=False):
    """Monomial abstraction: every assertion is expanded to a sum of monomials (z3 simplify, som) and each distinct
    non-linear monomial / quotient is replaced by a fresh real.  The result is implied by... rather: it is an
    OVER-approximation (the fresh reals are unconstrained), so `unsat` of the abstraction is `unsat` of the original."""
    out = []
    memo = {}

    def key_of(t):
        return t.sexpr()

    def ab(t):
        i = t.get_id()
        if i in memo:
            return memo[i][1]
        r = t
        if z3.is_app(t) and t.num_args() > 0:
            k = t.decl().kind()
            ch = [ab(c) for c in t.children()]
            if k == z3.Z3_OP_MUL:
                nums = [c for c in ch if z3.is_rational_value(c) or z3.is_int_value(c)]
                rest = [c for c in ch if not (z3.is_rational_value(c) or z3.is_int_value(c))]
                if keep_squares and len(rest) == 2 and rest[0].eq(rest[1]) and z3.is_const(rest[0]):
                    r = t.decl()(*ch)          # x*x of a single symbol stays non-linear (cheap for nlsat)
                elif len(rest) >= 2:
                    names = sorted(key_of(c) for c in rest)
                    nm = "mono!" + "*".join(names)
                    v = _lin_vars.get(nm)
                    if v is None:
                        v = z3.Real(nm) if any(z3.is_real(c) for c in rest) else z3.Int(nm)
                        _lin_vars[nm] = v
                    r = v
                    for nmb in nums:
                        r = nmb * r
                else:
                    r = t.decl()(*ch) if ch else t
            elif k in (z3.Z3_OP_DIV, z3.Z3_OP_IDIV, z3.Z3_OP_MOD) and not (z3.is_rational_value(ch[1]) or z3.is_int_value(ch[1])):
                nm = "quot!%s!%s!%d" % (key_of(ch[0]), key_of(ch[1]), k)
                v = _lin_vars.get(nm)
                if v is None:
                    v = z3.Real(nm) if z3.is_real(t) else z3.Int(nm)
                    _lin_vars[nm] = v
                r = v
            elif k == z3.Z3_OP_POWER:
                nm = "pow!%s!%s" % (key_of(ch[0]), key_of(ch[1]))
                v = _lin_vars.get(nm)
                if v is None:
                    v = z3.Real(nm) if z3.is_real(t) else z3.Int(nm)
                    _lin_vars[nm] = v
                r = v
            else:
                try:
                    r = t.decl()(*ch)
                except Exception:
                    r = t
        memo[i] = (t, r)
        return r
    for a in assertions:
        try:
            e = z3.simplify(a, som=True, som_blowup=10000000, mul_to_power=False, hoist_mul=False, flat=True)
        except Exception:
            e = a
        out.append(ab(e))
    return out


def check(assertions, timeout=30.0, want_model=False, solvers=None, cheap_only=False):
    """Decide the conjunction of `assertions`.

    Returns (result, model, info): result in {'sat','unsat','unknown'}; model maps variable name to
    Fraction/bool (only when want_model and sat)."""
    t0 = time.time()
    STATS["queries"] += 1
    assertions = [a for a in assertions if not z3.is_true(a)]
    if any(z3.is_false(a) for a in assertions):
        return "unsat", None, {"solver": "simplify", "seconds": 0.0}
    nl = any(is_nonlinear(a) for a in assertions)
    res, model, who = "unknown", None, None
    if not nl:
        s = z3.Solver()
        s.set("timeout", int(timeout * 1000))
        for a in assertions:
            s.add(a)
        r = s.check()
        res = str(r)
        who = "z3-inproc"
        if res == "sat" and want_model:
            m = s.model()
            model = {}
            for n, v in free_vars(assertions).items():
                try:
                    model[n] = _val_to_fraction(m.eval(v, model_completion=True))
                except Exception:
                    pass
    else:
        STATS["nonlinear"] += 1
        # cheap first: monomial abstraction decided in linear arithmetic (unsat there is unsat here)
        try:
            lin = linearize(assertions)
            if not any(is_nonlinear(a) for a in lin):
                ls = z3.Solver()
                ls.set("timeout", int(min(timeout, 10.0) * 1000))
                for a in lin:
                    ls.add(a)
                if str(ls.check()) == "unsat":
                    dt = time.time() - t0
                    STATS["seconds"] += dt
                    STATS["by_solver"]["z3-linearised"] = STATS["by_solver"].get("z3-linearised", 0) + 1
                    return "unsat", None, {"solver": "z3-linearised", "seconds": dt, "nonlinear": True}
            # second abstraction: squares of single symbols stay (t*t = 1 => |t| = 1 is easy for nlsat once the big
            # polynomials are atoms)
            lin2 = linearize(assertions, keep_squares=True)
            if any(is_nonlinear(a) for a in lin2):
                body2 = to_smt2(lin2, logic="QF_NRA" if not any(z3.is_int(v) for v in free_vars(lin2).values()) else "ALL")
                r2, _, _ = _external(body2, [], min(timeout, 8.0), False, solvers=("z3",))
                if r2 == "unsat":
                    dt = time.time() - t0
                    STATS["seconds"] += dt
                    STATS["by_solver"]["z3-semi-linearised"] = STATS["by_solver"].get("z3-semi-linearised", 0) + 1
                    return "unsat", None, {"solver": "z3-semi-linearised", "seconds": dt, "nonlinear": True}
        except Exception:
            pass
        if cheap_only:
            dt = time.time() - t0
            STATS["seconds"] += dt
            return "unknown", None, {"solver": "cheap-only", "seconds": dt, "nonlinear": True}
        fv = free_vars(assertions)
        has_int = any(z3.is_int(v) for v in fv.values()) or any(_mentions_int(a) for a in assertions)
        has_real = any(z3.is_real(v) for v in fv.values()) or any(_mentions_real(a) for a in assertions)
        has_uf = any(v.decl().arity() > 0 for v in [] ) or any(_has_uf(a) for a in assertions)
        if has_int and not has_real and not has_uf:
            logic = "QF_NIA"
        elif not has_int and not has_uf:
            logic = "QF_NRA"
        else:
            logic = "ALL"
        body = to_smt2(assertions, logic=logic)
        res, model, who = _external(body, sorted(fv), timeout, want_model, solvers=solvers or ("z3", "cvc5"))
    dt = time.time() - t0
    STATS["seconds"] += dt
    STATS["by_solver"][who or "none"] = STATS["by_solver"].get(who or "none", 0) + 1
    if res == "unknown":
        STATS["unknown"] += 1
    if QLOG is not None:
        QLOG.append(("nl" if nl else "lin", round(dt, 4), res, who))
    return res, model, {"solver": who, "seconds": dt, "nonlinear": nl}


def shutdown():
    _cvc5.kill()
