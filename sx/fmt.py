"""Independent parsers of the on-disk EM and MRC2014 layouts (struct-unpack of the published header layouts).
Used by the concrete side of the harnesses to look at the BYTES a real library wrote."""
import struct
import numpy as np

EM_DTYPES = {1: ("int8", "i1"), 2: ("int16", "<i2"), 4: ("int32", "<i4"), 5: ("float32", "<f4"), 8: ("complex64", "<c8"), 9: ("float64", "<f8")}
MRC_MODES = {0: ("int8", "i1"), 1: ("int16", "<i2"), 2: ("float32", "<f4"), 6: ("uint16", "<u2"), 12: ("float16", "<f2")}


def parse_em(path):
    b = open(path, "rb").read()
    machine, _, _, dtype_code = struct.unpack("4b", b[:4])
    xdim, ydim, zdim = struct.unpack("<3i", b[4:16])
    name, code = EM_DTYPES[dtype_code]
    payload = np.frombuffer(b[512:], dtype=code)
    assert payload.size == xdim * ydim * zdim, "payload size does not match header"
    return "em", name, (xdim, ydim, zdim), (lambda ix, iy, iz: payload[ix + xdim * (iy + ydim * iz)])


def parse_mrc(path):
    b = open(path, "rb").read()
    nx, ny, nz, mode = struct.unpack("<4i", b[:16])
    nsymbt = struct.unpack("<i", b[92:96])[0]
    name, code = MRC_MODES[mode]
    payload = np.frombuffer(b[1024 + nsymbt:], dtype=code)
    assert payload.size == nx * ny * nz, "payload size does not match header"
    return "mrc", name, (nx, ny, nz), (lambda ix, iy, iz: payload[ix + nx * (iy + ny * iz)])


def parse_file(path):
    if path.endswith(".em"):
        return parse_em(path)
    return parse_mrc(path)
