"""Lazy functional arrays (Tier F, DESIGN 2.4): shape entries may be symbolic integers, an element is a function
of an index tuple.  The numpy surface used by the anchored cryoCAT functions is implemented on top; a property is
asserted for ONE fresh symbolic index, i.e. for every voxel of every shape in the stated range at once."""
import itertools, numbers
import numpy as _np
import z3
from . import core
from .core import SNum, SBool, SSqrt, SAngle, Sym, is_sym, ctx, zreal, zterm, zbool, Unsupported

_ver = itertools.count(1)


def isint(x):
    return isinstance(x, (int, _np.integer)) and not isinstance(x, bool)


def as_index(x):
    """index component -> python int or SNum(Int)"""
    if isint(x):
        return int(x)
    if isinstance(x, Lin):
        if all(isint(d) for d in x.digits):
            return z3.simplify(x.e).as_long()
        return x
    if isinstance(x, SNum):
        if z3.is_int(x.e):
            v = z3.simplify(x.e)
            return v.as_long() if z3.is_int_value(v) else SNum(v)
        raise Unsupported("real-valued symbolic index")
    if isinstance(x, (float, _np.floating)) and float(x).is_integer():
        return int(x)
    raise Unsupported("index of type %s" % type(x).__name__)


class Lin(SNum):
    """A flattened (mixed-radix) index that remembers its digits: value = sum(digit_t * stride_t).  Reversal
    (P-1-lin) and unravelling into the same radices are done on the digits, without div/mod terms."""

    def __init__(self, digits, radices):
        self.digits = tuple(digits)
        self.radices = tuple(int(r) for r in radices)
        e = z3.IntVal(0)
        for d, r in zip(self.digits, self.radices):
            e = e * r + (zterm(d) if is_sym(d) else z3.IntVal(int(d)))
        SNum.__init__(self, z3.simplify(e))
        self.neg = False

    @property
    def total(self):
        t = 1
        for r in self.radices:
            t *= r
        return t

    def complement(self):
        return Lin([r - 1 - d for d, r in zip(self.digits, self.radices)], self.radices)

    def __mul__(self, o):
        if isint(o) and o == -1:
            n = _NegLin(self)
            return n
        return SNum.__mul__(self, o)

    __rmul__ = __mul__

    def __rsub__(self, o):
        if isint(o) and o == self.total - 1:
            return self.complement()
        return SNum.__rsub__(self, o)


class _NegLin(SNum):
    def __init__(self, lin):
        SNum.__init__(self, -lin.e)
        self.lin = lin

    def __add__(self, o):
        if isint(o) and o == self.lin.total - 1:
            return self.lin.complement()
        return SNum.__add__(self, o)

    __radd__ = __add__


def s_eq(a, b):
    if not is_sym(a) and not is_sym(b):
        return a == b
    return SBool(zterm(a) == zterm(b))


def s_and(*cs):
    cs = [c for c in cs if c is not True]
    if any(c is False for c in cs):
        return False
    if not cs:
        return True
    return SBool(z3.And([zbool(c) for c in cs]))


def s_or(*cs):
    cs = [c for c in cs if c is not False]
    if any(c is True for c in cs):
        return True
    if not cs:
        return False
    return SBool(z3.Or([zbool(c) for c in cs]))


def s_not(c):
    if isinstance(c, (bool, _np.bool_)):
        return not c
    return SBool(z3.Not(zbool(c)))


class SPiece(Sym):
    """if c then a else b, kept piecewise so that comparisons distribute over the branches (a branch may be a lazy
    square root whose comparisons are squared instead of materialised)."""

    def __init__(self, c, a, b):
        self.c, self.a, self.b = c, a, b

    def piece_value(self):
        return SNum(z3.If(zbool(self.c), zreal(self.a), zreal(self.b)))

    def _cmp(self, o, op):
        import operator
        f = getattr(operator, op)
        return s_ite(self.c, f(self.a, o), f(self.b, o))

    def __lt__(self, o): return self._cmp(o, "lt")
    def __le__(self, o): return self._cmp(o, "le")
    def __gt__(self, o): return self._cmp(o, "gt")
    def __ge__(self, o): return self._cmp(o, "ge")
    def __eq__(self, o): return s_ite(self.c, s_eq(self.a, o) if not isinstance(self.a, (SSqrt, SPiece)) else (self.a == o), s_eq(self.b, o) if not isinstance(self.b, (SSqrt, SPiece)) else (self.b == o))
    def __ne__(self, o): return s_not(self.__eq__(o))
    __hash__ = None

    def __bool__(self):
        return bool(_b(self))

    def _arith(name):
        def f(self, o):
            return getattr(self.piece_value(), name)(o)
        return f

    for _n in ("add", "radd", "sub", "rsub", "mul", "rmul", "truediv", "rtruediv", "pow"):
        locals()["__%s__" % _n] = _arith("__%s__" % _n)
    del _n, _arith

    def __neg__(self): return -self.piece_value()
    def __abs__(self): return abs(self.piece_value())
    def __repr__(self): return "SPiece"


def s_ite(c, a, b):
    """scalar if-then-else for (SBool|bool) c"""
    if isinstance(c, (bool, _np.bool_)):
        return a if c else b
    if isinstance(a, (SSqrt, SPiece)) or isinstance(b, (SSqrt, SPiece)):
        return SPiece(c, a, b)
    ab = isinstance(a, (SBool, bool, _np.bool_))
    bb = isinstance(b, (SBool, bool, _np.bool_))
    if ab and bb:
        return SBool(z3.If(zbool(c), zbool(a), zbool(b)))
    za, zb = zterm(a) if not ab else zterm(SBool(zbool(a))._num()), zterm(b) if not bb else zterm(SBool(zbool(b))._num())
    if z3.is_int(za) and z3.is_real(zb):
        za = z3.ToReal(za)
    if z3.is_real(za) and z3.is_int(zb):
        zb = z3.ToReal(zb)
    return SNum(z3.If(zbool(c), za, zb))


def s_lt(a, b):
    r = a < b
    return r


def s_min(a, b):
    return s_ite(a <= b, a, b) if (is_sym(a) or is_sym(b)) else min(a, b)


def s_max(a, b):
    return s_ite(a >= b, a, b) if (is_sym(a) or is_sym(b)) else max(a, b)


def decide_int(x):
    """bool(x) for SBool through the path, pass-through for bools"""
    return bool(x)


def norm_slice(sl, n):
    """Python slice normalisation (step None/1) with possibly symbolic bounds/extent: returns (start, stop) with
    0 <= start <= n, 0 <= stop <= n (stop may be < start -> empty).  Cases are decided by path forks."""
    if sl.step not in (None, 1):
        raise Unsupported("slice step %r" % (sl.step,))

    def norm(b, default):
        if b is None:
            return default
        b = as_index(b)
        if isint(b) and isint(n):
            if b < 0:
                b += n
            return min(max(b, 0), n)
        if bool(b < 0):
            b = b + n
            if bool(b < 0):
                return 0
            return b
        if bool(b > n):
            return n
        return b
    return norm(sl.start, 0), norm(sl.stop, n)


class LArray:
    __array_priority__ = 2000.0

    def __init__(self, shape, fn, dtype_tag="float64"):
        self.shape = tuple(as_index(s) for s in shape)
        self.fn = fn
        self.dtype_tag = dtype_tag
        self.version = next(_ver)

    # ---- basics
    @property
    def ndim(self):
        return len(self.shape)

    @property
    def dtype(self):
        return _np.dtype(self.dtype_tag)

    @property
    def size(self):
        r = 1
        for s in self.shape:
            r = r * s
        return r

    @property
    def T(self):
        return self.transpose()

    def __len__(self):
        s = self.shape[0]
        if isint(s):
            return s
        raise Unsupported("len() of a lazy array with symbolic extent")

    def at(self, idx):
        idx = tuple(as_index(i) for i in idx)
        if len(idx) != self.ndim:
            raise IndexError("wrong number of indices")
        return self.fn(idx)

    def copy(self):
        f = self.fn
        return LArray(self.shape, f, self.dtype_tag)

    def _set(self, fn, dtype_tag=None):
        self.fn = fn
        if dtype_tag:
            self.dtype_tag = dtype_tag
        self.version = next(_ver)

    # ---- elementwise
    def _bshape(self, o):
        if self.ndim != o.ndim:
            raise Unsupported("broadcast across different ndim")
        shp = []
        for a, b in zip(self.shape, o.shape):
            if isint(a) and a == 1:
                shp.append(b)
            elif isint(b) and b == 1:
                shp.append(a)
            else:
                if isint(a) and isint(b):
                    if a != b:
                        raise ValueError("operands could not be broadcast together with shapes %s %s" % (self.shape, o.shape))
                else:
                    if not bool(s_eq(a, b)):
                        raise ValueError("operands could not be broadcast together (symbolic extents differ)")
                shp.append(a)
        return tuple(shp)

    def _ew(self, o, f, rev=False, tag=None):
        sf, ss = self.fn, self.shape
        if isinstance(o, LArray):
            shp = self._bshape(o)
            of, os_ = o.fn, o.shape

            def g(idx):
                ia = tuple(0 if (isint(s) and s == 1) else i for i, s in zip(idx, ss))
                ib = tuple(0 if (isint(s) and s == 1) else i for i, s in zip(idx, os_))
                a, b = sf(ia), of(ib)
                return f(b, a) if rev else f(a, b)
            return LArray(shp, g, tag or _result_tag(self.dtype_tag, o.dtype_tag))
        if isinstance(o, _np.ndarray):
            if o.ndim == 0:
                o = o.item()
            else:
                return self._ew(from_numpy(o), f, rev, tag)
        if isinstance(o, (list, tuple)):
            return self._ew(from_numpy(_np.asarray(o)), f, rev, tag)
        return LArray(ss, (lambda idx: f(o, sf(idx)) if rev else f(sf(idx), o)), tag or self.dtype_tag)

    def _ew1(self, f, tag=None):
        sf = self.fn
        return LArray(self.shape, lambda idx: f(sf(idx)) if is_sym(sf(idx)) or True else None, tag or self.dtype_tag)

    def __add__(self, o): return self._ew(o, lambda a, b: a + b)
    def __radd__(self, o): return self._ew(o, lambda a, b: a + b, True)
    def __sub__(self, o): return self._ew(o, lambda a, b: a - b)
    def __rsub__(self, o): return self._ew(o, lambda a, b: a - b, True)
    def __mul__(self, o): return self._ew(o, lambda a, b: a * b)
    def __rmul__(self, o): return self._ew(o, lambda a, b: a * b, True)
    def __truediv__(self, o): return self._ew(o, lambda a, b: a / b, tag="float64")
    def __rtruediv__(self, o): return self._ew(o, lambda a, b: a / b, True, tag="float64")
    def __floordiv__(self, o): return self._ew(o, lambda a, b: a // b)
    def __pow__(self, o): return self._ew(o, lambda a, b: a ** b)
    def __neg__(self): return self._ew1(lambda a: -a)
    def __abs__(self): return self._ew1(lambda a: abs(a))
    def __gt__(self, o): return self._ew(o, lambda a, b: a > b, tag="bool")
    def __ge__(self, o): return self._ew(o, lambda a, b: a >= b, tag="bool")
    def __lt__(self, o): return self._ew(o, lambda a, b: a < b, tag="bool")
    def __le__(self, o): return self._ew(o, lambda a, b: a <= b, tag="bool")
    def __eq__(self, o): return self._ew(o, lambda a, b: s_eq(a, b), tag="bool")
    def __ne__(self, o): return self._ew(o, lambda a, b: s_not(s_eq(a, b)), tag="bool")
    def __and__(self, o): return self._ew(o, lambda a, b: s_and(_b(a), _b(b)), tag="bool")
    def __rand__(self, o): return self._ew(o, lambda a, b: s_and(_b(a), _b(b)), True, tag="bool")
    def __or__(self, o): return self._ew(o, lambda a, b: s_or(_b(a), _b(b)), tag="bool")
    def __ror__(self, o): return self._ew(o, lambda a, b: s_or(_b(a), _b(b)), True, tag="bool")
    def __invert__(self): return self._ew1(lambda a: s_not(_b(a)), tag="bool")
    __hash__ = None

    def __bool__(self):
        raise ValueError("The truth value of an array with more than one element is ambiguous.")

    def _inplace(self, o, f):
        r = self._ew(o, f)
        if not _same_shape(r.shape, self.shape):
            raise ValueError("non-broadcastable output operand")
        self._set(r.fn)
        return self

    def __iadd__(self, o): return self._inplace(o, lambda a, b: a + b)
    def __isub__(self, o): return self._inplace(o, lambda a, b: a - b)
    def __imul__(self, o): return self._inplace(o, lambda a, b: a * b)
    def __itruediv__(self, o): return self._inplace(o, lambda a, b: a / b)

    # ---- casts
    def astype(self, t, *a, **k):
        from . import casts, fs
        name = casts.cast_name(t)
        sf = self.fn
        if t is bool or name == "bool":
            return LArray(self.shape, lambda idx: _b(sf(idx)), "bool")
        if name in ("i64", "i32", "int"):
            return LArray(self.shape, lambda idx: _to_int(sf(idx)), "int64")
        if name is None:
            tag = "float64"
            return LArray(self.shape, lambda idx: _to_num(sf(idx)), tag)
        full = {"f32": "float32", "i16": "int16", "i8": "int8"}.get(name, name)
        if full == self.dtype_tag:
            return LArray(self.shape, sf, full)
        return LArray(self.shape, lambda idx: casts.cast_scalar(_to_num(sf(idx)), name), full)

    # ---- shape manipulation
    def transpose(self, *axes):
        if len(axes) == 1 and isinstance(axes[0], (tuple, list)):
            axes = tuple(axes[0])
        if not axes or axes == (None,):
            axes = tuple(reversed(range(self.ndim)))
        sf = self.fn
        inv = [0] * self.ndim
        for new, old in enumerate(axes):
            inv[old] = new
        return LArray(tuple(self.shape[a] for a in axes), lambda idx: sf(tuple(idx[inv[o]] for o in range(len(idx)))), self.dtype_tag)

    def reshape(self, *shape):
        if len(shape) == 1 and isinstance(shape[0], (tuple, list, _np.ndarray)):
            shape = tuple(shape[0])
        shape = [as_index(s) for s in shape]
        if not all(isint(s) for s in self.shape):
            # symbolic extents: only trivial reshapes (dropping/adding unit axes, identity)
            mine = [s for s in self.shape if not (isint(s) and s == 1)]
            new = [s for s in shape if not (isint(s) and s == 1)]
            if len(mine) == len(new) and all(_same(a, b) for a, b in zip(mine, new)):
                sf, ss = self.fn, self.shape
                keep_new = [k for k, s in enumerate(shape) if not (isint(s) and s == 1)]

                def g(idx):
                    it = iter(idx[k] for k in keep_new)
                    return sf(tuple(0 if (isint(s) and s == 1) else next(it) for s in ss))
                return LArray(shape, g, self.dtype_tag)
            raise Unsupported("reshape with symbolic extents")
        total = 1
        for s in self.shape:
            total *= s
        if -1 in shape:
            known = 1
            for s in shape:
                if s != -1:
                    known *= s
            shape[shape.index(-1)] = total // known if known else 0
        newtotal = 1
        for s in shape:
            newtotal *= s
        if newtotal != total:
            raise ValueError("cannot reshape array of size %d into shape %s" % (total, tuple(shape)))
        sf, oshape = self.fn, tuple(self.shape)
        shape = tuple(shape)
        # axes that are identical at the front / back pass through untouched; only the middle is re-factored
        lead = 0
        while lead < min(len(shape), len(oshape)) and shape[lead] == oshape[lead]:
            lead += 1
        trail = 0
        while trail < min(len(shape), len(oshape)) - lead and shape[-1 - trail] == oshape[-1 - trail]:
            trail += 1
        nmid = shape[lead:len(shape) - trail]
        omid = oshape[lead:len(oshape) - trail]

        def g(idx):
            mid = idx[lead:len(idx) - trail]
            if len(nmid) == 1 and isinstance(mid[0], Lin) and mid[0].radices == tuple(omid):
                src_mid = list(mid[0].digits)                      # unravel a remembered flat index
            elif all(isint(i) for i in mid):
                lin = 0
                for i, sz in zip(mid, nmid):
                    lin = lin * sz + i
                src_mid = []
                for sz in reversed(omid):
                    src_mid.append(lin % sz)
                    lin //= sz
                src_mid.reverse()
            elif len(omid) == 1:
                src_mid = [Lin(mid, nmid)]                         # flatten: keep the digits
            else:
                lin = Lin(mid, nmid)
                src_mid = []
                rem = SNum(lin.e)
                for sz in reversed(omid):
                    src_mid.append(SNum(z3.simplify(zterm(rem) % sz)))
                    rem = SNum(z3.simplify(zterm(rem) / sz))
                src_mid.reverse()
            tail = idx[len(idx) - trail:] if trail else ()
            return sf(tuple(as_index(v) for v in tuple(idx[:lead]) + tuple(src_mid) + tuple(tail)))
        return LArray(shape, g, self.dtype_tag)

    def flatten(self):
        return self.reshape(-1)

    ravel = flatten

    def squeeze(self):
        keep = [k for k, s in enumerate(self.shape) if not (isint(s) and s == 1)]
        return self.reshape(tuple(self.shape[k] for k in keep))

    # ---- indexing
    def _parse_key(self, key):
        if not isinstance(key, tuple):
            key = (key,)
        if any(k is Ellipsis for k in key):
            n_real = sum(1 for k in key if k is not None and k is not Ellipsis)
            pos = [i for i, k in enumerate(key) if k is Ellipsis][0]
            key = key[:pos] + (slice(None),) * (self.ndim - n_real) + key[pos + 1:]
        n_real = sum(1 for k in key if k is not None)
        key = key + (slice(None),) * (self.ndim - n_real)
        return key

    def __getitem__(self, key):
        if isinstance(key, LArray):
            raise Unsupported("boolean-mask getitem on a lazy array")
        key = self._parse_key(key)
        sf = self.fn
        plan = []       # per source axis: ("fix", i) | ("sl", start, step) | ("arr", ndarray)
        newshape = []
        out_axes = []   # for each output axis: source axis or None (newaxis)
        ax = 0
        for k in key:
            if k is None:
                newshape.append(1)
                out_axes.append(None)
                continue
            n = self.shape[ax]
            if isinstance(k, slice):
                if k.step in (None, 1):
                    a, b = norm_slice(k, n)
                    ext = b - a
                    if is_sym(ext):
                        if bool(ext < 0):
                            ext = 0
                    elif ext < 0:
                        ext = 0
                    plan.append(("sl", a, 1))
                    newshape.append(as_index(ext) if not isint(ext) else ext)
                elif k.step == -1 and k.start is None and k.stop is None:
                    plan.append(("sl", n - 1, -1))
                    newshape.append(n)
                elif isint(k.step) and isint(n):
                    r = range(*k.indices(n))
                    plan.append(("sl", r.start, r.step))
                    newshape.append(len(r))
                else:
                    raise Unsupported("slice %r" % (k,))
                out_axes.append(ax)
            elif isinstance(k, (_np.ndarray, list)) and not isint(k):
                arr = _np.asarray(k)
                if arr.dtype == bool:
                    arr = _np.where(arr)[0]
                plan.append(("arr", arr))
                newshape.append(len(arr))
                out_axes.append(ax)
            else:
                i = as_index(k)
                if isint(i) and isint(n) and i < 0:
                    i += n
                elif not isint(i) and bool(i < 0):
                    i = i + n
                plan.append(("fix", i))
            ax += 1
        src_of_out = [a for a in out_axes]

        def g(idx):
            src = [None] * len(plan)
            for o, a in enumerate(src_of_out):
                if a is None:
                    continue
                p = plan[a]
                if p[0] == "sl":
                    if p[2] == 1:
                        src[a] = idx[o] if (isint(p[1]) and p[1] == 0) else p[1] + idx[o]
                    else:
                        src[a] = p[1] + idx[o] * p[2]
                elif p[0] == "arr":
                    j = idx[o]
                    if isint(j):
                        src[a] = int(p[1][j])
                    else:
                        v = int(p[1][0]) if len(p[1]) else 0
                        for t in range(1, len(p[1])):
                            v = s_ite(s_eq(j, t), int(p[1][t]), v)
                        src[a] = v
            for a, p in enumerate(plan):
                if p[0] == "fix":
                    src[a] = p[1]
            return sf(tuple(as_index(s) for s in src))
        if not newshape:
            return g(())
        return LArray(newshape, g, self.dtype_tag)

    def __setitem__(self, key, val):
        old = self.fn
        if isinstance(key, LArray):       # boolean mask
            kf = key.fn
            if isinstance(val, LArray):
                raise Unsupported("mask assignment of an array value")
            cv = self._store_cast(val)
            self._set(lambda idx: s_ite(_b(kf(idx)), cv, old(idx)))
            return
        key = self._parse_key(key)
        if any(k is None for k in key):
            raise Unsupported("newaxis in setitem")
        conds = []      # per axis: ("fix", i) or ("sl", a, b)
        region_shape = []
        for ax, k in enumerate(key):
            n = self.shape[ax]
            if isinstance(k, slice):
                a, b = norm_slice(k, n)
                ext = b - a
                if is_sym(ext):
                    if bool(ext < 0):
                        ext = 0
                elif ext < 0:
                    ext = 0
                conds.append(("sl", a, b))
                region_shape.append(ext)
            else:
                i = as_index(k)
                if isint(i) and isint(n) and i < 0:
                    i += n
                elif not isint(i) and bool(i < 0):
                    i = i + n
                # out-of-bounds index raises in numpy
                if isint(i) and isint(n):
                    if not (0 <= i < n):
                        raise IndexError("index %d is out of bounds for axis %d with size %d" % (i, ax, n))
                elif not bool(s_and(i >= 0, i < n)):
                    raise IndexError("index out of bounds (symbolic)")
                conds.append(("fix", i))
        vf = None
        if isinstance(val, (_np.ndarray, list, tuple)) and not isinstance(val, LArray):
            val = from_numpy(_np.asarray(val))
        if isinstance(val, LArray):
            # numpy's shape-compatibility check (decided by the solver on symbolic extents)
            vs = list(val.shape)
            rs = list(region_shape)
            while len(vs) < len(rs):
                vs.insert(0, 1)
            if len(vs) > len(rs):
                extra = vs[: len(vs) - len(rs)]
                if not all(isint(e) and e == 1 for e in extra):
                    raise ValueError("could not broadcast input array into shape")
                vs = vs[len(vs) - len(rs):]
            for a, b in zip(vs, rs):
                if isint(a) and a == 1:
                    continue
                if isint(a) and isint(b):
                    if a != b:
                        raise ValueError("could not broadcast input array from shape %s into shape %s" % (val.shape, tuple(region_shape)))
                elif not bool(s_eq(a, b)):
                    raise ValueError("could not broadcast input array (symbolic extents differ)")
            vfn, vshape = val.fn, tuple(vs)
            pad = len(val.shape) - len(vs)
            sl_axes = [ax for ax, c in enumerate(conds) if c[0] == "sl"]

            def vf(idx):
                rel = [idx[ax] - conds[ax][1] for ax in sl_axes]
                rel = [0 if (isint(s) and s == 1) else r for r, s in zip(rel, vshape)]
                return vfn(tuple([0] * pad + [as_index(r) for r in rel]))

        def g(idx):
            cs = []
            for ax, c in enumerate(conds):
                if c[0] == "fix":
                    cs.append(s_eq(idx[ax], c[1]))
                else:
                    cs.append(s_and(idx[ax] >= c[1], idx[ax] < c[2]))
            inside = s_and(*cs)
            if inside is False:
                return old(idx)
            v = self._store_cast(vf(idx) if vf is not None else val)
            return s_ite(inside, v, old(idx)) if inside is not True else v
        self._set(g)

    def _store_cast(self, v):
        """numpy casts an assigned value to the array's dtype: storing a non-integer into an integer array truncates"""
        tag = str(getattr(self, "dtype_tag", "") or "")
        if not tag.startswith(("int", "uint")):
            return v
        from . import casts
        if is_sym(v):
            e = core.zreal(v) if hasattr(core, "zreal") else None
            if e is not None and casts._is_int_term(e):
                return v
            return casts.sx_trunc(v)
        if isinstance(v, (float, _np.floating)):
            return int(v)
        return v

    # ---- reductions over a concrete extent
    def sum(self, axis=None, **k):
        if axis is None:
            if not all(isint(s) for s in self.shape):
                raise Unsupported("sum over symbolic extent")
            tot = 0
            for idx in itertools.product(*[range(s) for s in self.shape]):
                tot = tot + self.fn(idx)
            return tot
        if axis < 0:
            axis += self.ndim
        n = self.shape[axis]
        if not isint(n):
            raise Unsupported("sum over symbolic extent")
        sf = self.fn

        def g(idx):
            tot = 0
            for j in range(n):
                tot = tot + sf(idx[:axis] + (j,) + idx[axis:])
            return tot
        return LArray(self.shape[:axis] + self.shape[axis + 1:], g, self.dtype_tag)

    def mean(self, axis=None, **k):
        if axis is None:
            return opaque_scalar("mean", self)
        n = self.shape[axis]
        return self.sum(axis) / n

    def min(self, *a, **k):
        return opaque_scalar("min", self)

    def max(self, *a, **k):
        return opaque_scalar("max", self)

    def std(self, *a, **k):
        return opaque_scalar("std", self)

    def tolist(self):
        raise Unsupported("tolist of lazy array")


def _same(a, b):
    if isint(a) and isint(b):
        return a == b
    return bool(s_eq(a, b))


def _same_shape(s1, s2):
    return len(s1) == len(s2) and all(_same(a, b) for a, b in zip(s1, s2))


def _result_tag(a, b):
    if a == b:
        return a
    order = ["bool", "int8", "int16", "int32", "int64", "float32", "float64"]
    try:
        return order[max(order.index(a), order.index(b))]
    except ValueError:
        return "float64"


def _b(v):
    """truthiness of an element as (SBool|bool) without forking"""
    if isinstance(v, (SBool, bool, _np.bool_)):
        return v
    if isinstance(v, SSqrt):
        return SBool(v.rad != 0)
    if isinstance(v, SPiece):
        return s_ite(v.c, _b(v.a), _b(v.b))
    if isinstance(v, SNum):
        return SBool(v.e != 0)
    return bool(v)


def _to_num(v):
    if isinstance(v, SBool):
        return v._num()
    if isinstance(v, (bool, _np.bool_)):
        return 1.0 if v else 0.0
    if isinstance(v, SSqrt):
        return v.value()
    if isinstance(v, SPiece):
        return v.piece_value()
    return v


def _to_int(v):
    if isinstance(v, SBool):
        return v._num()
    if isinstance(v, (bool, _np.bool_)):
        return 1 if v else 0
    if isinstance(v, SNum) and z3.is_int(v.e):
        return v
    if is_sym(v):
        from . import casts
        return casts.sx_trunc(v)
    return int(v)


_opaque_memo = {}


def opaque_scalar(name, arr):
    """np.mean/min/max/std of a whole volume: an opaque scalar tied to the array's identity (version)."""
    key = (name, arr.version)
    return SNum(z3.Real("%s_of_array_v%d" % (name, arr.version)))


def from_numpy(a, tag=None):
    a = _np.asarray(a)
    if a.dtype == object:
        fn = lambda idx: _elem(a, idx)
        return LArray(a.shape, fn, tag or "float64")
    return LArray(a.shape, lambda idx: _elem(a, idx), tag or a.dtype.name)


def _elem(a, idx):
    if all(isint(i) for i in idx):
        v = a[tuple(idx)]
        return v.item() if hasattr(v, "item") and not is_sym(v) else v
    # symbolic index into a concrete 1-D arithmetic progression (linspace/arange coordinates): a linear term
    if a.ndim == 1 and a.size >= 2 and a.dtype != object and len(idx) == 1:
        d = a[1] - a[0]
        if _np.all(_np.diff(a) == d) and float(d).is_integer() and float(a[0]).is_integer():
            return SNum(z3.IntVal(int(a[0])) + z3.IntVal(int(d)) * zterm(idx[0]))
    # symbolic index into a concrete array: ITE chain over the (small) concrete extent
    if a.size > 4096:
        raise Unsupported("symbolic index into a large concrete array")
    res = None
    for cidx in itertools.product(*[range(s) for s in a.shape]):
        v = a[cidx]
        v = v.item() if hasattr(v, "item") and not is_sym(v) else v
        cond = s_and(*[s_eq(i, c) for i, c in zip(idx, cidx)])
        if cond is False:
            continue
        res = v if res is None else s_ite(cond, v, res)
    return res


def full(shape, value, tag="float64"):
    return LArray(shape, lambda idx: value, tag)


def uf_array(name, shape, tag="float64", rng=None, binary=False):
    """An arbitrary array: element (i,j,...) is the uninterpreted function name(i,j,...).  Range / {0,1} constraints
    are instantiated for every index at which the array is evaluated."""
    nd = len(shape)
    f = z3.Function(name, *([z3.IntSort()] * nd + [z3.RealSort()]))

    def fn(idx):
        t = f(*[zterm(i) if is_sym(i) else z3.IntVal(int(i)) for i in idx])
        c = ctx()
        seen = c.__dict__.setdefault("_uf_inst", set())
        k = (name, t.get_id())
        if k not in seen:
            seen.add(k)
            c.__dict__.setdefault("_uf_keep", []).append(t)
            if binary:
                c.assume(z3.Or(t == 0, t == 1))
            elif rng is not None:
                c.assume(z3.And(t >= rng[0], t <= rng[1]))
        return SNum(t)
    return LArray(shape, fn, tag)
