"""numpy functions on lazy arrays (called through the numpy proxy when an argument is an LArray)."""
import numpy as _np
from . import core, larray
from .larray import LArray, isint, as_index, s_ite, s_eq, s_and, s_min, s_max, Unsupported
from .core import is_sym, SNum


def _la(x):
    return x if isinstance(x, LArray) else larray.from_numpy(_np.asarray(x))


def tile(a, reps):
    a = _la(a)
    reps = list(reps) if isinstance(reps, (tuple, list, _np.ndarray)) else [reps]
    while len(reps) < a.ndim:
        reps.insert(0, 1)
    if len(reps) > a.ndim:
        a = a.reshape((1,) * (len(reps) - a.ndim) + tuple(a.shape))
    shp, sf, ss = [], a.fn, a.shape
    for s, r in zip(a.shape, reps):
        r = as_index(r)
        shp.append(s * r if not (isint(r) and r == 1) else s)

    def g(idx):
        src = []
        for i, s, r in zip(idx, ss, reps):
            if isint(r) and r == 1:
                src.append(i)
            elif isint(s) and s == 1:
                src.append(0)
            elif isint(i) and isint(s):
                src.append(i % s)
            else:
                src.append(SNum(core.zterm(i) % core.zterm(s)) if not isint(s) else SNum(core.zterm(i) % s))
        return sf(tuple(as_index(v) for v in src))
    return LArray(shp, g, a.dtype_tag)


def clip(a, lo, hi, out=None):
    a = _la(a)
    sf = a.fn

    def g(idx):
        v = larray._to_num(sf(idx))
        return s_min(s_max(v, lo), hi)
    return LArray(a.shape, g, a.dtype_tag)


def minimum(a, b):
    return _la(a)._ew(b, lambda x, y: s_min(x, y)) if isinstance(a, LArray) else _la(b)._ew(a, lambda x, y: s_min(x, y))


def maximum(a, b):
    return _la(a)._ew(b, lambda x, y: s_max(x, y)) if isinstance(a, LArray) else _la(b)._ew(a, lambda x, y: s_max(x, y))


def zeros_like(a, dtype=None):
    return larray.full(a.shape, 0.0, a.dtype_tag if dtype is None else _np.dtype(dtype).name)


def ones_like(a, dtype=None):
    return larray.full(a.shape, 1.0, a.dtype_tag if dtype is None else _np.dtype(dtype).name)


def array(a, dtype=None, copy=True, **k):
    r = a.copy()
    return r.astype(dtype) if dtype is not None else r


def asarray(a, dtype=None, **k):
    return a.astype(dtype) if dtype is not None else a


copy = array


def transpose(a, axes=None):
    return a.transpose(axes) if axes is not None else a.transpose()


def sum(a, axis=None, **k):
    return a.sum(axis=axis)


def mean(a, axis=None, **k):
    return a.mean(axis=axis)


def std(a, *args, **k):
    return a.std()


def amin(a, *args, **k):
    return a.min()


def amax(a, *args, **k):
    return a.max()


min = amin
max = amax


def real(a):
    return a


def where(c, a=None, b=None):
    if a is None:
        raise Unsupported("np.where(cond) on a lazy array")
    c = _la(c)
    cf = c.fn
    af = a.fn if isinstance(a, LArray) else None
    bf = b.fn if isinstance(b, LArray) else None
    shp = c.shape
    return LArray(shp, lambda idx: s_ite(larray._b(cf(idx)), af(idx) if af else a, bf(idx) if bf else b),
                  a.dtype_tag if isinstance(a, LArray) else (b.dtype_tag if isinstance(b, LArray) else "float64"))


def flip(a, axis=None):
    axes = range(a.ndim) if axis is None else ([axis] if isint(axis) else list(axis))
    axes = [ax % a.ndim for ax in axes]
    sf, ss = a.fn, a.shape
    return LArray(ss, lambda idx: sf(tuple((ss[k] - 1 - i) if k in axes else i for k, i in enumerate(idx))), a.dtype_tag)


def roll(a, shift, axis=None):
    if axis is None:
        raise Unsupported("roll without axis")
    shifts = [shift] if not isinstance(shift, (tuple, list)) else list(shift)
    axes = [axis] if not isinstance(axis, (tuple, list)) else list(axis)
    sf, ss = a.fn, a.shape
    mp = {ax % a.ndim: sh for ax, sh in zip(axes, shifts)}

    def g(idx):
        src = []
        for k, i in enumerate(idx):
            if k in mp:
                n = ss[k]
                v = i - mp[k]
                src.append(_mod(v, n))
            else:
                src.append(i)
        return sf(tuple(src))
    return LArray(ss, g, a.dtype_tag)


def _mod(v, n):
    if isint(v) and isint(n):
        return v % n
    import z3
    return as_index(SNum(core.zterm(v) % core.zterm(n)))


def expand_dims(a, axis):
    shp = list(a.shape)
    if axis < 0:
        axis += a.ndim + 1
    shp.insert(axis, 1)
    return a.reshape(tuple(shp))


def squeeze(a, axis=None):
    return a.squeeze()


def stack(arrs, axis=0):
    arrs = [_la(x) for x in arrs]
    n = len(arrs)
    base = arrs[0].shape
    if axis < 0:
        axis += len(base) + 1
    shp = list(base)
    shp.insert(axis, n)
    fns = [x.fn for x in arrs]

    def g(idx):
        j = idx[axis]
        rest = idx[:axis] + idx[axis + 1:]
        if isint(j):
            return fns[j](rest)
        v = fns[0](rest)
        for t in range(1, n):
            v = s_ite(s_eq(j, t), fns[t](rest), v)
        return v
    return LArray(shp, g, arrs[0].dtype_tag)


def delete(a, obj, axis=None):
    if axis is None:
        raise Unsupported("delete without axis")
    n = a.shape[axis]
    if not isint(n):
        raise Unsupported("delete along a symbolic axis")
    rem = sorted(set(int(o) % n for o in _np.atleast_1d(obj)))
    keep = [i for i in range(n) if i not in rem]
    key = [slice(None)] * a.ndim
    key[axis] = _np.array(keep, dtype=int)
    return a[tuple(key)]


def isnan(a):
    return LArray(a.shape, lambda idx: False, "bool")


def multiply(a, b): return _la(a) * b if isinstance(a, LArray) else b * a
def add(a, b): return _la(a) + b if isinstance(a, LArray) else b + a
def subtract(a, b): return a - b
def divide(a, b): return a / b
def true_divide(a, b): return a / b
def power(a, b): return a ** b
def absolute(a): return abs(a)
def negative(a): return -a


def shape(a):
    return a.shape


def ndim(a):
    return a.ndim


def iscomplexobj(a):
    return False


def isrealobj(a):
    return True


def ascontiguousarray(a, dtype=None):
    return asarray(a, dtype)


def meshgrid(*xi, indexing="xy", **k):
    """lazy meshgrid of concrete or lazy 1-D coordinate arrays"""
    if indexing != "ij":
        raise Unsupported("meshgrid indexing=%r" % indexing)
    arrs = [_la(x) for x in xi]
    shp = tuple(a.shape[0] for a in arrs)
    out = []
    for ax, a in enumerate(arrs):
        out.append(LArray(shp, (lambda idx, ax=ax, f=a.fn: f((idx[ax],))), a.dtype_tag))
    return out
