"""Aggregation of path results into verdicts, VIOLATION/KNOWN-FINDING lines and the evidence file."""
import hashlib, json, os, sys, time
from . import cli

ROOT = cli.ROOT
REPO = os.environ.get("SX_REPO", "/repo")


def _sha(path):
    try:
        return hashlib.sha256(open(path, "rb").read()).hexdigest()
    except OSError:
        return None


def summarize_model(m, limit=12):
    if not m:
        return {}
    out = {}
    for k in sorted(m)[:limit]:
        v = m[k]
        try:
            from fractions import Fraction
            out[k] = round(float(Fraction(v)), 6) if not isinstance(v, bool) else v
        except Exception:
            out[k] = str(v)
    return out


def line_coverage(functions, lines_hit, focus=None):
    """Lines of the entered repository functions that the SYMBOLIC runs executed (sys.monitoring LINE events in the twin
    modules), against the executable lines of the function's code object.  Unreached lines are listed for the functions in
    the harness' FOCUS list (all entered functions when there is none, capped)."""
    import pathlib
    src_dir = pathlib.Path(REPO) / "cryocat"
    by_mod = {}
    for f in functions:
        m, q = f.split(":", 1)
        by_mod.setdefault(m, set()).add(q)
    out = {"note": "symbolic runs only; executable = line numbers of the function's code object (def line excluded)", "functions": {}}
    tot_e = tot_r = 0
    for m, quals in sorted(by_mod.items()):
        path = src_dir / (m + ".py")
        if not path.exists():
            continue
        text = path.read_text()
        src_lines = text.split("\n")
        try:
            top = compile(text, str(path), "exec")
        except SyntaxError:
            continue
        stack = [top]
        while stack:
            c = stack.pop()
            for k in c.co_consts:
                if hasattr(k, "co_code"):
                    stack.append(k)
            if c.co_qualname in quals and c is not top and (c.co_flags & 0x1):        # functions only (CO_OPTIMIZED): no class bodies
                ex = set(l for _, _, l in c.co_lines() if l is not None and l != c.co_firstlineno)
                for k in c.co_consts:       # nested lambdas / comprehensions count with their parent
                    if hasattr(k, "co_code") and k.co_qualname not in quals and k.co_name.startswith("<"):
                        ex |= set(l for _, _, l in k.co_lines() if l is not None)
                hit = set(l for (mm, l) in lines_hit if mm == m and l in ex)
                if not hit:
                    continue        # entered only by the concrete runs
                key = "%s:%s" % (m, c.co_qualname)
                rec = {"executable": len(ex), "reached": len(hit)}
                tot_e += len(ex)
                tot_r += len(hit)
                if (focus is None and len(ex - hit) <= 40) or (focus is not None and key in focus):
                    rec["not_reached"] = ["%d: %s" % (l, src_lines[l - 1].strip()[:110]) for l in sorted(ex - hit)][:60]
                out["functions"][key] = rec
    out["total_executable"] = tot_e
    out["total_reached"] = tot_r
    return out


def finish(prop, mod, tier, seed, res, known, t0, verbose=False, extra_cov=None, extra_violations=None, extra_obligations=None):
    expected_exc = getattr(mod, "EXPECTED_EXCEPTIONS", ())
    violations = []      # dicts
    known_hits = {}
    n_paths = n_nontriv = 0
    n_obl = n_dis = n_inc = n_unrep = 0
    n_cc = n_cc_skip = 0
    n_unsupported = 0
    harness_errors = []
    jobs_summary = []
    samples = []
    functions = set()
    queries = 0
    incomplete_jobs = 0
    solver_s = 0.0
    by_solver = {}
    lemma_keys = set()
    lines_hit = set()
    n_ok_paths = 0
    n_cc_same = 0

    def add_violation(fn, params, obligation, model, why, exception=None):
        k = cli.match_known(known, prop, fn, params, obligation, exception)
        rec = {"fn": fn, "params": params, "obligation": obligation, "model": model, "why": why, "exception": exception}
        if k is not None:
            known_hits.setdefault(k["id"], (k, rec))
        else:
            violations.append(rec)

    for fn, params, paths, complete in res:
        js = {"fn": fn, "params": params, "paths": len(paths), "complete": bool(complete), "obligations": 0, "discharged": 0,
              "inconclusive": 0, "unsupported_paths": 0, "exception_paths": 0, "queries": 0, "seconds": 0.0, "crosschecked": 0}
        if not complete:
            incomplete_jobs += 1
        for p in paths:
            n_paths += 1
            queries += p.get("queries", 0)
            js["queries"] += p.get("queries", 0)
            js["seconds"] += p.get("seconds", 0)
            functions.update(p.get("functions", []))
            lemma_keys.update(p.get("lemmas", []))
            lines_hit.update(tuple(x) for x in p.get("lines", []))
            if p.get("decisions", 0) > 0 or any(o.get("solver") not in (None, "simplify") for o in p.get("obligations", [])):
                n_nontriv += 1
            st = p["status"]
            cc = p.get("crosscheck")
            if st == "harness-error":
                harness_errors.append((fn, params, p.get("why"), p.get("tb")))
                continue
            if st == "infeasible" or st == "expected-exception":
                continue
            if st == "unsupported":
                n_unsupported += 1
                js["unsupported_paths"] += 1
                js.setdefault("unsupported_why", p.get("why"))
                if cc and cc["status"] == "ok" and cc.get("failed"):
                    add_violation(fn, params, cc["failed"][0], p.get("pc_model"), "concrete run on a model of the (partial) path condition violates the obligation")
                elif cc and cc["status"] == "exception" and not _expected(cc.get("exception"), expected_exc):
                    add_violation(fn, params, None, p.get("pc_model"), "concrete run raises", exception=cc.get("exception"))
                continue
            if st == "exception":
                js["exception_paths"] += 1
                exc = p.get("exception", "")
                if cc and cc["status"] == "exception" and cc.get("exception", "").split(":")[0] == exc.split(":")[0]:
                    if not _expected(exc, expected_exc):
                        add_violation(fn, params, None, p.get("pc_model"), "exception in the code under test, reproduced concretely", exception=cc.get("exception"))
                elif cc and cc["status"] == "ok" and cc.get("failed"):
                    add_violation(fn, params, cc["failed"][0], p.get("pc_model"), "concrete run violates obligation")
                else:
                    n_unsupported += 1
                    js["unsupported_paths"] += 1
                    js.setdefault("unsupported_why", "symbolic-only exception: %s @ %s" % (exc, p.get("where")))
                continue
            # status ok
            n_ok_paths += 1
            all_unsat = True
            for ob in p["obligations"]:
                n_obl += 1
                js["obligations"] += 1
                solver_s += ob.get("seconds", 0.0)
                by_solver[ob.get("solver")] = by_solver.get(ob.get("solver"), 0) + 1
                if ob["result"] == "unsat":
                    n_dis += 1
                    js["discharged"] += 1
                elif ob["result"] == "sat":
                    all_unsat = False
                    rp = ob.get("replay")
                    if rp and (ob["name"] in rp.get("failed", [])):
                        add_violation(fn, params, ob["name"], ob.get("model"), "counterexample reproduced on the plain package")
                    elif rp and rp["status"] == "exception" and not _expected(rp.get("exception"), expected_exc):
                        add_violation(fn, params, ob["name"], ob.get("model"), "counterexample input raises on the plain package", exception=rp.get("exception"))
                    else:
                        n_unrep += 1
                        js["inconclusive"] += 1
                        js.setdefault("unreproduced", []).append({"obligation": ob["name"], "model": summarize_model(ob.get("model")), "replay": (rp or {}).get("status")})
                else:
                    all_unsat = False
                    n_inc += 1
                    js["inconclusive"] += 1
            if cc is not None:
                if cc["status"] == "ok" and not cc.get("failed"):
                    n_cc += 1
                    js["crosschecked"] += 1
                    if cc.get("ob_names_hash") and cc.get("ob_names_hash") == p.get("sym_ob_names_hash"):
                        n_cc_same += 1
                elif cc["status"] == "ok" and cc.get("failed") and not p.get("pc_model_interior"):
                    n_cc_skip += 1      # boundary (tie) witness: float rounding may flip a comparison; not counted either way
                elif cc["status"] == "ok" and cc.get("failed"):
                    add_violation(fn, params, cc["failed"][0], p.get("pc_model"), "concrete run on a witness input of this path violates the obligation (real libraries, float64)")
                elif cc["status"] == "exception" and not _expected(cc.get("exception"), expected_exc):
                    add_violation(fn, params, None, p.get("pc_model"), "concrete cross-check raises although the symbolic path completed", exception=cc.get("exception"))
                elif cc["status"] == "skip":
                    n_cc_skip += 1
            if len(samples) < 6 and p.get("obligations"):
                samples.append({"fn": fn, "params": params, "decisions": p.get("decisions"), "path_condition_size": p.get("pc_size"),
                                "obligations": [{"name": o["name"], "result": o["result"], "solver": o.get("solver")} for o in p["obligations"][:8]],
                                "witness_input": summarize_model(p.get("pc_model"))})
        js["seconds"] = round(js["seconds"], 2)
        jobs_summary.append(js)

    for v in (extra_violations or []):
        add_violation(v["fn"], v["params"], v["obligation"], v["model"], v["why"])
    if extra_obligations:
        n_obl += extra_obligations[0]
        n_dis += extra_obligations[1]
        n_inc += extra_obligations[2]
    # --- output lines
    rc = 0
    for kid, (k, rec) in sorted(known_hits.items()):
        print("KNOWN-FINDING: property=%s %s" % (prop, k["description"]))
    seen = set()
    for v in violations:
        key = (v["fn"], json.dumps(v["params"], sort_keys=True, default=str), v["obligation"], (v.get("exception") or "").split(":")[0])
        if key in seen:
            continue
        seen.add(key)
        path = cli.write_replay(prop, v["fn"], v["params"], v["obligation"], v["model"], {"why": v["why"], "exception": v.get("exception")})
        print("VIOLATION property=%s replay=%s" % (prop, path))
        print("  fn=%s params=%s obligation=%s %s" % (v["fn"], v["params"], v["obligation"], v.get("exception") or ""))
        rc = 1
    if harness_errors:
        for fn, params, why, tb in harness_errors[:3]:
            print("HARNESS-ERROR fn=%s params=%s: %s\n%s" % (fn, params, why, tb or ""), file=sys.stderr)
        if rc == 0:
            rc = cli.EXIT_HARNESS

    wall = time.time() - t0
    mods = sorted({f.split(":")[0] for f in functions})
    hashes = {"cryocat/%s.py" % m: _sha(os.path.join(REPO, "cryocat", m + ".py")) for m in mods}
    cov = {
        "explanation": getattr(mod, "EXPLANATION", "") + " Deciding step: SMT verdict (unsat of path-condition AND NOT obligation) on every explored path of the real code executed on symbolic data.",
        "evaluations": n_paths,
        "distinct_nontrivial": n_nontriv,
        "rule": "one evaluation = one complete symbolic execution path of the real function (decision prefix is unique, so paths are distinct); non-trivial = the path took >=1 solver-decided branch or has >=1 obligation that needed a solver (not closed by term simplification)",
        "samples": samples or [{"note": "no completed path"}],
        "obligations": n_obl,
        "discharged": n_dis,
        "inconclusive": n_inc + n_unrep,
        "unreproduced_counterexamples": n_unrep,
        "unsupported_paths": n_unsupported,
        "incomplete_jobs": incomplete_jobs,
        "traces_validated_against_impl": n_cc,
        "vacuity_guard": {"rule": "a path counts as witnessed when the solver produced an explicit model of its path condition (so the assumptions are "
                                  "satisfiable together with the branch decisions) AND the same harness, run on that model against the plain package, "
                                  "reached and passed its obligations (the second counter tells for how many paths the concrete run evaluated exactly the same set of obligation names; harnesses with concrete-only / symbolic-only obligations or projected witnesses differ); this is the per-path form of the 'assert(false) must be violated' twin",
                          "paths_witnessed": n_cc, "witness_reached_exactly_the_symbolic_path_obligations": n_cc_same, "paths_completed": n_ok_paths, "paths_completed_without_witness": max(0, n_ok_paths - n_cc - n_cc_skip),
                          "witness_was_a_tie_or_skipped": n_cc_skip},
        "crosscheck_skipped": n_cc_skip,
        "queries": queries,
        "obligation_solver_seconds": round(solver_s, 2),
        "obligation_solvers": {str(k): v for k, v in by_solver.items()},
        "functions_entered": sorted(functions),
        "source_sha256": hashes,
        "repo_analysed": str(REPO),
        "bounds": getattr(mod, "BOUNDS", {}).get(tier, getattr(mod, "BOUNDS", {})),
        "outside_claim": getattr(mod, "OUTSIDE", []),
        "witness_only_clauses": getattr(mod, "WITNESS_ONLY", []),
        "jobs": jobs_summary,
        "known_findings_hit": sorted(known_hits),
        "exhaustive": False,
    }
    try:
        cov["line_coverage_of_entered_functions"] = line_coverage(functions, lines_hit, getattr(mod, "FOCUS", None))
    except Exception as e:      # noqa
        cov["line_coverage_of_entered_functions"] = {"error": repr(e)}
    if lemma_keys:
        try:
            from . import rotation
            cov["lemmas"] = rotation.lemma_report(sorted(lemma_keys))
        except Exception as e:      # noqa
            cov["lemmas"] = [{"error": repr(e)}]
    if extra_cov:
        cov.update(extra_cov)
    ev = {
        "property_id": prop,
        "tier": tier if tier in ("quick", "thorough") else "quick",
        "seed": int(seed),
        "level": "other",
        "coverage": cov,
        "assumptions": getattr(mod, "ASSUMPTIONS", []) + ["A0: Python float arithmetic modelled over the reals; rounding error outside the claim",
                                                            "library stubs (see stub list in DESIGN 3.1) are specifications of numpy/pandas/scipy behaviour"],
        "wall_s": round(wall, 2),
        "violations": len(seen),
    }
    write_evidence(prop, ev)
    print("%s tier=%s paths=%d obligations=%d discharged=%d inconclusive=%d unsupported_paths=%d crosschecked=%d incomplete_jobs=%d violations=%d known=%d wall=%.1fs"
          % (prop, tier, n_paths, n_obl, n_dis, n_inc + n_unrep, n_unsupported, n_cc, incomplete_jobs, len(seen), len(known_hits), wall))
    if verbose:
        for js in jobs_summary:
            print("  ", json.dumps(js, default=str)[:600])
    return rc


def _expected(exc, expected):
    if not exc:
        return False
    return any(exc.startswith(e) for e in expected)


def write_evidence(prop, ev):
    os.makedirs(os.path.join(ROOT, "evidence"), exist_ok=True)
    path = os.path.join(ROOT, "evidence", prop + ".json")
    try:
        import jsonschema
        schema = json.load(open("/root/.vp/EVIDENCE.schema.json")) if os.path.exists("/root/.vp/EVIDENCE.schema.json") else json.load(open(os.path.join(ROOT, "sx", "EVIDENCE.schema.json")))
        jsonschema.validate(ev, schema)
    except ImportError:
        pass
    json.dump(ev, open(path, "w"), indent=1, default=str)
    if ev.get("tier") == "thorough":       # the last thorough run is kept next to the (usually quick) current evidence file
        os.makedirs(os.path.join(ROOT, "evidence", "thorough"), exist_ok=True)
        json.dump(ev, open(os.path.join(ROOT, "evidence", "thorough", prop + ".json"), "w"), indent=1, default=str)
