"""pandas proxy bound to `pd` in symbolically loaded modules: real pandas, plus pass-through versions of the few
entry points that insist on numeric dtypes when the data hold symbolic scalars."""
import types
import numpy as _np
import pandas as _pd
from . import npx


class _DFMeta(type):
    def __instancecheck__(cls, obj):
        return isinstance(obj, _pd.DataFrame)

    def __subclasscheck__(cls, sub):
        return issubclass(sub, _pd.DataFrame)

    def __getattr__(cls, name):
        return getattr(_pd.DataFrame, name)

    def __call__(cls, data=None, *a, **k):
        dt = k.get("dtype")
        if dt is not None and data is not None and npx.has_sym(data):
            try:
                is_float = _np.dtype(dt).kind == "f"
            except TypeError:
                is_float = False
            if is_float:
                k = dict(k)
                k.pop("dtype")          # symbolic reals stand for float64 already; keep them as objects
        return _pd.DataFrame(data, *a, **k)


class DataFrameShim(metaclass=_DFMeta):
    pass


class PDX(types.ModuleType):
    def __init__(self):
        super().__init__("pandas")
        self.DataFrame = DataFrameShim

    def __getattr__(self, name):
        return getattr(_pd, name)

    @staticmethod
    def to_numeric(arg, *a, **k):
        if npx.has_sym(arg):
            return arg          # symbolic scalars are numbers already
        return _pd.to_numeric(arg, *a, **k)
