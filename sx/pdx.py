"""pandas proxy bound to `pd` in symbolically loaded modules: real pandas, plus pass-through versions of the few
functions that insist on numeric dtypes when a column holds symbolic scalars."""
import types
import pandas as _pd
from . import npx


class PDX(types.ModuleType):
    def __init__(self):
        super().__init__("pandas")

    def __getattr__(self, name):
        return getattr(_pd, name)

    @staticmethod
    def to_numeric(arg, *a, **k):
        if npx.has_sym(arg):
            return arg          # symbolic scalars are numbers already
        return _pd.to_numeric(arg, *a, **k)
