"""Loads /repo/cryocat/<module>.py from source *at check time* into a twin package `sx_cryocat`, with a closed
list of operator-preserving AST rewrites and library bindings replaced by symbolic-aware shims (DESIGN 2.1)."""
import ast, builtins, hashlib, importlib, importlib.abc, importlib.util, os, pathlib, sys, types, decimal as _decimal, math as _math
import numpy as _np
from . import core, npx, rotation
from .core import Sym, SNum, SAngle, SBool, SSqrt, is_sym, Unsupported

REPO = pathlib.Path(os.environ.get("SX_REPO", "/repo"))
SRC = REPO / "cryocat"
PKG = "sx_cryocat"


# ---------------------------------------------------------------------------------------------
# shims for builtins / stdlib


def sx_float(x=0.0):
    if isinstance(x, (SNum, SSqrt, SAngle)):
        return x
    if isinstance(x, _DecimalSym):
        return x.v
    return builtins.float(x)


def sx_int(x=0, *a):
    if isinstance(x, (SNum, SSqrt)):
        # int() truncates toward zero; the result stays symbolic (it is concretised only where Python
        # needs a machine integer: indexing, range(), shapes)
        import z3
        from . import casts
        if isinstance(x, SNum) and z3.is_int(x.e):
            return x
        if isinstance(x, SNum) and x.dom is not None:
            return builtins.int(core.concretize(x))
        return casts.sx_trunc(x)
    return builtins.int(x, *a)


def sx_round(x, nd=None):
    if isinstance(x, SNum):
        return x.__round__(nd)
    return builtins.round(x, nd) if nd is not None else builtins.round(x)


def sx_abs(x):
    return builtins.abs(x)


_NUMERIC_TYPES = (int, float, _np.floating, _np.integer, _np.number)


def sx_isinstance(x, t):
    if isinstance(x, (SNum, SSqrt, SAngle)):
        ts = t if isinstance(t, tuple) else (t,)
        if any(tt in (float, _np.floating, _np.float64, _np.number) for tt in ts if isinstance(tt, type)):
            return True
        if any(tt in (int, _np.integer) for tt in ts if isinstance(tt, type)) and isinstance(x, SNum):
            # an SNum is "an int" only if int-sorted
            import z3
            if z3.is_int(x.e):
                return True
        return builtins.isinstance(x, t)
    if type(x).__name__ == "LArray":
        ts = t if isinstance(t, tuple) else (t,)
        if any(tt is _np.ndarray for tt in ts):
            return True
    return builtins.isinstance(x, t)


class _DecimalSym:
    def __init__(self, v):
        self.v = v

    def to_integral_value(self, rounding=None):
        if rounding == _decimal.ROUND_HALF_UP:
            return _DecimalSym(core.sx_round_half_up(self.v))
        if rounding in (None, _decimal.ROUND_HALF_EVEN):
            return _DecimalSym(core.sx_round_half_even(self.v))
        raise Unsupported("decimal rounding mode %r" % (rounding,))

    def __float__(self):
        raise TypeError("float() on symbolic Decimal")


class _DecimalMod(types.ModuleType):
    def __init__(self):
        super().__init__("decimal")

    def __getattr__(self, name):
        return getattr(_decimal, name)

    @staticmethod
    def Decimal(x=0, *a):
        if isinstance(x, (SNum, SSqrt)):
            return _DecimalSym(x)
        return _decimal.Decimal(x, *a)


class _MathMod(types.ModuleType):
    def __init__(self):
        super().__init__("math")

    def __getattr__(self, name):
        return getattr(_math, name)

    @staticmethod
    def ceil(x):
        return core.sx_ceil(x) if is_sym(x) else _math.ceil(x)

    @staticmethod
    def floor(x):
        return core.sx_floor(x) if is_sym(x) else _math.floor(x)

    @staticmethod
    def sqrt(x):
        return x.sqrt() if is_sym(x) else _math.sqrt(x)

    @staticmethod
    def cos(x):
        return x.cos() if isinstance(x, SAngle) else _math.cos(x)

    @staticmethod
    def sin(x):
        return x.sin() if isinstance(x, SAngle) else _math.sin(x)

    @staticmethod
    def radians(x):
        return x.deg2rad() if isinstance(x, SAngle) else _math.radians(x)

    @staticmethod
    def degrees(x):
        return x.rad2deg() if isinstance(x, SAngle) else _math.degrees(x)


def sx_ceil(x):
    return core.sx_ceil(x) if is_sym(x) else _math.ceil(x)


class SXHelpers:
    """Targets of the AST call-site rewrites."""

    @staticmethod
    def astype(x, t, *a, **k):
        if npx.has_sym(x):
            if type(x).__name__ == "LArray":
                return x.astype(t, *a, **k)
            if t in (float, _np.float64, "float", "float64", object):
                return x
            from . import casts
            return casts.astype(x, t)
        if isinstance(x, _np.ndarray) and x.dtype == object:
            x = npx._demote(x)
        return x.astype(t, *a, **k)

    float_ = staticmethod(sx_float)
    int_ = staticmethod(sx_int)
    round_ = staticmethod(sx_round)
    isinstance_ = staticmethod(sx_isinstance)

    @staticmethod
    def tolist(x, *a, **k):
        return x.tolist(*a, **k)

    @staticmethod
    def item(x, *a, **k):
        return x.item(*a, **k)


# ---------------------------------------------------------------------------------------------


class Rewriter(ast.NodeTransformer):
    def __init__(self):
        self.n = {"astype": 0, "builtin_calls": 0}

    def visit_Call(self, node):
        self.generic_visit(node)
        if isinstance(node.func, ast.Name) and node.func.id in ("float", "int", "round", "isinstance"):
            # call sites only: the bare names (e.g. dtype=float, .astype(int)) stay the builtins
            self.n["builtin_calls"] += 1
            node.func = ast.copy_location(ast.Attribute(value=ast.Name(id="__sx__", ctx=ast.Load()), attr=node.func.id + "_", ctx=ast.Load()), node.func)
            return node
        if isinstance(node.func, ast.Attribute) and node.func.attr == "astype":
            self.n["astype"] += 1
            return ast.copy_location(
                ast.Call(func=ast.Attribute(value=ast.Name(id="__sx__", ctx=ast.Load()), attr="astype", ctx=ast.Load()),
                         args=[node.func.value] + node.args, keywords=node.keywords), node)
        return node

    def visit_FunctionDef(self, node):
        self.generic_visit(node)
        # numba / cuda JIT decorators are dropped: the kernel's Python source is executed as written
        keep = []
        for d in node.decorator_list:
            txt = ast.unparse(d)
            if "njit" in txt or "numba." in txt or "cuda.jit" in txt or txt.startswith("jit"):
                self.n["jit_decorators_dropped"] = self.n.get("jit_decorators_dropped", 0) + 1
            else:
                keep.append(d)
        node.decorator_list = keep
        return node

    def visit_ImportFrom(self, node):
        if node.module == "cryocat":
            node.module = PKG
        elif node.module and node.module.startswith("cryocat."):
            node.module = PKG + node.module[7:]
        return node

    def visit_Import(self, node):
        for a in node.names:
            if a.name == "cryocat" or a.name.startswith("cryocat."):
                a.asname = a.asname or a.name.split(".")[-1]
                a.name = PKG + a.name[7:]
        return node


class Loader(importlib.abc.MetaPathFinder, importlib.abc.Loader):
    def __init__(self):
        self.hashes = {}
        self.rewrites = {}
        self.entered = set()
        self.lines = set()       # (module, lineno) executed inside twin modules (symbolic runs only)
        self._lines_sent = set()
        self.substituted = {}
        self.np = npx.NPX()
        from . import pdx
        self.pd = pdx.PDX()
        self.decimal = _DecimalMod()
        self.math = _MathMod()
        self.extra = {}          # per-module extra bindings set by harnesses: {module: {name: value}}
        self._mon = False

    # --- import machinery
    def find_spec(self, name, path, target=None):
        if name == PKG:
            return importlib.util.spec_from_loader(name, self, is_package=True)
        if name.startswith(PKG + "."):
            f = SRC / (name.split(".", 1)[1] + ".py")
            if f.exists():
                return importlib.util.spec_from_loader(name, self)
        return None

    def create_module(self, spec):
        return None

    def exec_module(self, module):
        if module.__name__ == PKG:
            module.__path__ = []
            return
        short = module.__name__.split(".", 1)[1]
        f = SRC / (short + ".py")
        src = f.read_text()
        rw = Rewriter()
        tree = rw.visit(ast.parse(src, str(f)))
        ast.fix_missing_locations(tree)
        self.hashes["cryocat/%s.py" % short] = hashlib.sha256(src.encode()).hexdigest()
        self.rewrites[short] = dict(rw.n)
        module.__dict__["__sx__"] = SXHelpers
        module.__file__ = str(f)
        # "/./" marks code objects of the symbolically loaded twins (same file for linecache / tracebacks; the plain
        # package imported by the concrete runs has the path without it)
        exec(compile(tree, str(f.parent) + "/./" + f.name, "exec"), module.__dict__)
        self._substitute(short, module)

    def _substitute(self, short, module):
        import numpy, decimal, math, pandas
        import scipy.spatial.transform as sst
        g = module.__dict__
        subs = []
        for name, val in list(g.items()):
            if val is numpy:
                g[name] = self.np; subs.append(name)
            elif val is pandas:
                g[name] = self.pd; subs.append(name)
            elif val is sst.Rotation:
                g[name] = rotation.Rotation; subs.append(name)
            elif val is decimal:
                g[name] = self.decimal; subs.append(name)
            elif val is math:
                g[name] = self.math; subs.append(name)
            elif val is math.ceil:
                g[name] = sx_ceil; subs.append(name)
            elif name == "prange":
                g[name] = range; subs.append(name)
        from . import stubs
        subs += stubs.substitute(short, g)
        self.substituted[short] = sorted(subs)

    def load(self, short):
        if self not in sys.meta_path:
            sys.meta_path.insert(0, self)
        m = importlib.import_module(PKG + "." + short)
        self.start_monitor()
        return m

    # --- function-entry recording (sys.monitoring, only code objects from /repo/cryocat)
    def start_monitor(self):
        if self._mon:
            return
        self._mon = True
        mon = sys.monitoring
        tid = mon.PROFILER_ID
        try:
            mon.use_tool_id(tid, "sx")
        except ValueError:
            return
        prefix = str(SRC)

        def on_start(code, off):
            fn = code.co_filename
            if fn.startswith(prefix):
                self.entered.add("%s:%s" % (os.path.basename(fn)[:-3], code.co_qualname))
            return mon.DISABLE

        def on_line(code, line):
            fn = code.co_filename
            if "/./" in fn and fn.startswith(prefix):
                self.lines.add((os.path.basename(fn)[:-3], line))
            return mon.DISABLE

        mon.register_callback(tid, mon.events.PY_START, on_start)
        mon.register_callback(tid, mon.events.LINE, on_line)
        mon.set_events(tid, mon.events.PY_START | mon.events.LINE)

    def begin_path(self):
        """re-arm the per-location LINE events so that the lines of THIS path are recorded (each fires once per path)"""
        self.lines = set()
        if self._mon:
            try:
                sys.monitoring.restart_events()
            except Exception:      # noqa
                pass

    def new_lines(self, feasible=True):
        """lines executed by this path that no earlier FEASIBLE path of this worker has reported"""
        if not feasible:
            return []
        d = self.lines - self._lines_sent
        self._lines_sent |= d
        return sorted(d)

    def reset_for_path(self):
        from . import fs
        fs.FSYS.reset()
        npx.STATE["lazy"] = False
        npx.STATE["real_rotation"] = False


_loader = None


def get_loader():
    global _loader
    if _loader is None:
        _loader = Loader()
    return _loader
