"""In-memory file-system model (emfile, mrcfile, open, isfile) -- see DESIGN 3.1."""


def substitute(short, g):
    return []
