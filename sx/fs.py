"""In-memory file-system model for symbolically loaded modules (DESIGN 3.1): emfile, mrcfile, os.path.isfile.

A written file is a Record: format, on-disk dtype, header dims (nx, ny, nz) and the payload array in
on-disk (C) order.  The stubs follow the documented behaviour of emfile 0.3 / mrcfile 1.5:
  emfile.write : header xdim,ydim,zdim = shape[2],shape[1],shape[0]; dtype code from the array dtype;
                 payload = C-order bytes; refuses to overwrite unless overwrite=True
  mrcfile.write: nx,ny,nz = shape[::-1]; mode from dtype (int8->0, int16->1, float32->2, uint16->6);
                 float64 is rejected (ValueError); refuses to overwrite unless overwrite=True
"""
import os as _os, types
import numpy as _np
from . import npx
from .core import Unsupported

EM_CODES = {"int8": 1, "int16": 2, "int32": 4, "float32": 5, "complex64": 8, "float64": 9}
MRC_MODES = {"int8": 0, "int16": 1, "float32": 2, "uint16": 6, "float16": 12, "complex64": 4}


class TaggedArray(_np.ndarray):
    """object ndarray that remembers the numeric dtype it stands for (after a symbolic astype)."""
    sx_dtype = None

    def __array_finalize__(self, obj):
        if obj is not None:
            self.sx_dtype = getattr(obj, "sx_dtype", None)


def tag(arr, name):
    t = _np.asarray(arr).view(TaggedArray)
    t.sx_dtype = name
    return t


def dtype_name(a):
    n = getattr(a, "sx_dtype", None)
    if n is not None:
        return n
    if type(a).__name__ == "LArray":
        return a.dtype_tag
    dt = _np.asarray(a).dtype
    if dt == object:
        return "float64"      # untagged symbolic reals stand for Python/numpy float64
    return dt.name


class Record:
    def __init__(self, fmt, dtype, dims, data):
        self.fmt, self.dtype, self.dims, self.data = fmt, dtype, dims, data


class FS:
    def __init__(self):
        self.files = {}

    def reset(self):
        self.files.clear()


FSYS = FS()


def _shape(a):
    return tuple(a.shape)


class EmfileStub(types.ModuleType):
    def __init__(self):
        super().__init__("emfile")

    def write(self, path, data, header_params={}, overwrite=False):
        path = str(path)
        if (path in FSYS.files or _os.path.exists(path)) and not overwrite:
            raise ValueError("file %s exists" % path)
        name = dtype_name(data)
        if name not in EM_CODES:
            raise KeyError(name)
        shp = _shape(data)
        if len(shp) != 3:
            raise IndexError("tuple index out of range")
        FSYS.files[path] = Record("em", name, (shp[2], shp[1], shp[0]), data)

    def read(self, path, header_only=False, mmap=False):
        path = str(path)
        if path not in FSYS.files:
            import emfile
            return emfile.read(path, header_only=header_only, mmap=mmap)
        r = FSYS.files[path]
        if r.fmt != "em":
            raise Unsupported("reading a non-EM record as EM")
        header = {"dtype": EM_CODES[r.dtype], "xdim": r.dims[0], "ydim": r.dims[1], "zdim": r.dims[2], "machine": 6}
        return header, (None if header_only else r.data)


class _MrcHandle:
    def __init__(self, rec, path):
        self.rec = rec
        self.data = rec.data
        self.path = path
        self.header = types.SimpleNamespace(nx=rec.dims[0], ny=rec.dims[1], nz=rec.dims[2], mode=MRC_MODES[rec.dtype])
        self.voxel_size = types.SimpleNamespace(x=1.0, y=1.0, z=1.0)

    def __enter__(self):
        return self

    def __exit__(self, *a):
        return False

    def close(self):
        pass


class MrcfileStub(types.ModuleType):
    def __init__(self):
        super().__init__("mrcfile")

    def __getattr__(self, name):
        import mrcfile
        return getattr(mrcfile, name)

    def write(self, name, data=None, overwrite=False, voxel_size=None):
        path = str(name)
        if (path in FSYS.files or _os.path.exists(path)) and not overwrite:
            raise ValueError("File '%s' already exists; set overwrite=True to overwrite it" % path)
        dn = dtype_name(data)
        if dn not in MRC_MODES:
            raise ValueError("dtype '%s' cannot be converted to an MRC file mode" % dn)
        shp = _shape(data)
        if len(shp) not in (2, 3, 4):
            raise ValueError("Array should have 2, 3 or 4 dimensions")
        dims = tuple(reversed(shp)) if len(shp) == 3 else (shp[1], shp[0], 1)
        FSYS.files[path] = Record("mrc", dn, dims, data)

    def open(self, name, mode="r", permissive=False, header_only=False):
        path = str(name)
        if path not in FSYS.files:
            import mrcfile
            return mrcfile.open(path, mode=mode, permissive=permissive, header_only=header_only)
        r = FSYS.files[path]
        if r.fmt != "mrc":
            raise Unsupported("reading a non-MRC record as MRC")
        return _MrcHandle(r, path)

    def read(self, name):
        return self.open(name).data


class _PathProxy:
    def __getattr__(self, name):
        return getattr(_os.path, name)

    @staticmethod
    def isfile(p):
        return str(p) in FSYS.files or _os.path.isfile(p)

    @staticmethod
    def exists(p):
        return str(p) in FSYS.files or _os.path.exists(p)


class OsProxy(types.ModuleType):
    def __init__(self):
        super().__init__("os")
        self.path = _PathProxy()

    def __getattr__(self, name):
        return getattr(_os, name)


EMFILE = EmfileStub()
MRCFILE = MrcfileStub()
OS = OsProxy()


def substitute(short, g):
    import emfile, mrcfile, os
    subs = []
    for name, val in list(g.items()):
        if val is emfile:
            g[name] = EMFILE; subs.append(name)
        elif val is mrcfile:
            g[name] = MRCFILE; subs.append(name)
        elif val is os:
            g[name] = OS; subs.append(name)
        elif val is os.path:
            g[name] = OS.path; subs.append(name)
    return subs
