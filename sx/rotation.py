"""Exact polynomial rotation algebra standing in for scipy.spatial.transform.Rotation (DESIGN 2.2, 3.1).

A rotation is a 3x3 matrix of z3 Real terms.  Angles are `SAngle`s (cos, sin pairs); plain floats become
named/exact constants.  `as_euler` is specified by scipy's contract (fresh angles whose Euler matrix equals
the rotation, middle-angle range) and remembers what it decomposed (provenance)."""
import itertools, math, numbers
import numpy as np
import z3
from .core import SAngle, SNum, SSqrt, Sym, ctx, zreal, is_sym, Unsupported, const_cos_sin

ONE, ZERO = z3.RealVal(1), z3.RealVal(0)


def mm(A, B):
    return [[z3.simplify(sum((A[i][k] * B[k][j] for k in range(3)), ZERO)) for j in range(3)] for i in range(3)]


def mT(A):
    return [[A[j][i] for j in range(3)] for i in range(3)]


def mv(A, v):
    return [z3.simplify(sum((A[i][k] * v[k] for k in range(3)), ZERO)) for i in range(3)]


IDENT = [[ONE, ZERO, ZERO], [ZERO, ONE, ZERO], [ZERO, ZERO, ONE]]


def elem(axis, c, s):
    if axis == "z":
        return [[c, -s, ZERO], [s, c, ZERO], [ZERO, ZERO, ONE]]
    if axis == "x":
        return [[ONE, ZERO, ZERO], [ZERO, c, -s], [ZERO, s, c]]
    if axis == "y":
        return [[c, ZERO, s], [ZERO, ONE, ZERO], [-s, ZERO, c]]
    raise ValueError(axis)


def euler_matrix(seq, angs):
    """angs: list of (c, s).  lowercase = extrinsic: R = R3 R2 R1; uppercase = intrinsic: R = R1 R2 R3."""
    Ms = [elem(ch.lower(), c, s) for ch, (c, s) in zip(seq, angs)]
    if len(Ms) == 1:
        return Ms[0]
    if seq.islower():
        M = Ms[0]
        for X in Ms[1:]:
            M = mm(X, M)
        return M
    M = Ms[0]
    for X in Ms[1:]:
        M = mm(M, X)
    return M


def as_cs(a, degrees):
    if isinstance(a, SAngle):
        return (a.c, a.s)
    if isinstance(a, Sym):
        raise Unsupported("Rotation.from_euler on a symbolic number that is not an angle")
    d = float(a) if degrees else math.degrees(float(a))
    return const_cos_sin(d)


_prov = itertools.count()


class Rotation:
    def __init__(self, mats, single=False):
        self.mats = mats
        self.single = single

    # ---- constructors
    @classmethod
    def from_euler(cls, seq, angles, degrees=False):
        if hasattr(angles, "to_numpy"):
            angles = angles.to_numpy()
        arr = np.asarray(angles, dtype=object)
        from . import npx as _npx
        if _npx.STATE.get("real_rotation") and not any(is_sym(v) for v in arr.ravel()):
            # all-concrete job (file round trips with concrete cells): the real scipy class, real floats
            from scipy.spatial.transform import Rotation as _SR
            return _SR.from_euler(seq, np.asarray(arr, dtype=float), degrees=degrees)
        if len(seq) == 1:
            single = arr.ndim == 0
            arr = arr.reshape(-1, 1)
        else:
            single = arr.ndim == 1
            arr = np.atleast_2d(arr)
        if arr.shape[1] != len(seq):
            raise ValueError("Expected `angles` to have shape (N, %d), got %s" % (len(seq), arr.shape))
        mats = []
        for row in arr:
            provs = [getattr(a, "prov", None) for a in row]
            if (len(seq) == 3 and all(p is not None for p in provs) and len({p[0] for p in provs}) == 1
                    and provs[0][1] == seq and [p[2] for p in provs] == [0, 1, 2]):
                mats.append(provs[0][3])   # from_euler(seq, as_euler(seq)) == R  (library contract)
                continue
            mats.append(euler_matrix(seq, [as_cs(a, degrees) for a in row]))
        r = cls(mats, single)
        r.euler_src = (seq, [list(row) for row in arr])
        r.leaf = True
        return r

    @classmethod
    def from_matrix(cls, m):
        a = np.asarray(m, dtype=object)
        if a.ndim == 2:
            return cls([[[zreal(a[i, j]) for j in range(3)] for i in range(3)]], True)
        return cls([[[zreal(x[i, j]) for j in range(3)] for i in range(3)] for x in a], False)

    @classmethod
    def identity(cls, num=None):
        if num is None:
            return cls([IDENT], True)
        return cls([IDENT] * num, False)

    @classmethod
    def concatenate(cls, rots):
        mats = []
        for r in rots:
            mats.extend(r.mats)
        return cls(mats, False)

    @classmethod
    def from_quat(cls, q):
        a = np.asarray(q, dtype=object)
        single = a.ndim == 1
        a = np.atleast_2d(a)
        mats = []
        for row in a:
            x, y, z, w = [zreal(v) for v in row]
            n = x * x + y * y + z * z + w * w
            M = [[(w * w + x * x - y * y - z * z) / n, 2 * (x * y - z * w) / n, 2 * (x * z + y * w) / n],
                 [2 * (x * y + z * w) / n, (w * w - x * x + y * y - z * z) / n, 2 * (y * z - x * w) / n],
                 [2 * (x * z - y * w) / n, 2 * (y * z + x * w) / n, (w * w - x * x - y * y + z * z) / n]]
            mats.append(M)
        return cls(mats, single)

    # ---- algebra
    def __len__(self):
        if self.single:
            raise TypeError("Single rotation has no len().")
        return len(self.mats)

    def __getitem__(self, k):
        if self.single:
            raise TypeError("Single rotation is not subscriptable.")
        if isinstance(k, (int, np.integer)):
            return Rotation([self.mats[k]], True)
        idx = np.arange(len(self.mats))[k]
        return Rotation([self.mats[i] for i in np.atleast_1d(idx)], False)

    def __iter__(self):
        for m in self.mats:
            yield Rotation([m], True)

    def _bc(self, o):
        n = max(len(self.mats), len(o.mats))
        if len(self.mats) not in (1, n) or len(o.mats) not in (1, n):
            raise ValueError("Expected equal number of rotations in both or a single rotation")
        A = self.mats * n if len(self.mats) == 1 else self.mats
        B = o.mats * n if len(o.mats) == 1 else o.mats
        return A, B

    def __mul__(self, o):
        if not isinstance(o, Rotation):
            return NotImplemented
        A, B = self._bc(o)
        return Rotation([mm(a, b) for a, b in zip(A, B)], self.single and o.single)

    def inv(self):
        return Rotation([mT(m) for m in self.mats], self.single)

    def apply(self, vectors, inverse=False):
        v = np.asarray(vectors, dtype=object)
        single_v = v.ndim == 1
        V = np.atleast_2d(v)
        if V.shape[1] != 3:
            raise ValueError("Expected input of shape (3,) or (P, 3), got %s" % (v.shape,))
        n = max(len(self.mats), len(V))
        if len(self.mats) not in (1, n) or len(V) not in (1, n):
            raise ValueError("Expected equal numbers of rotations and vectors, or a single rotation or vector")
        M = self.mats * n if len(self.mats) == 1 else self.mats
        VV = list(V) * n if len(V) == 1 else list(V)
        out = np.empty((n, 3), dtype=object)
        for m_ in self.mats:
            orthogonality_lemmas(m_, getattr(self, "leaf", False))
        for i in range(n):
            A = mT(M[i]) if inverse else M[i]
            r = mv(A, [zreal(VV[i][k]) for k in range(3)])
            for k in range(3):
                out[i, k] = SNum(r[k])
        if self.single and single_v:
            return out[0]
        return out

    def as_matrix(self):
        def conv(m):
            a = np.empty((3, 3), dtype=object)
            for i in range(3):
                for j in range(3):
                    a[i, j] = SNum(m[i][j])
            return a
        if self.single:
            return conv(self.mats[0])
        out = np.empty((len(self.mats), 3, 3), dtype=object)
        for k, m in enumerate(self.mats):
            out[k] = conv(m)
        return out

    def as_euler(self, seq, degrees=False):
        c = ctx()
        out = np.empty((len(self.mats), 3), dtype=object)
        proper = seq[0].lower() == seq[2].lower()
        memo = c.__dict__.setdefault("_euler_memo", {})
        src = getattr(self, "euler_src", None)
        for i, M in enumerate(self.mats):
            if src is not None and src[0] == seq and proper and i < len(src[1]) and all(isinstance(a, SAngle) and a._v is not None for a in src[1][i]):
                a0, a1, a2 = src[1][i]
                from .core import SBool
                canonical = z3.And(a0.v > -180, a0.v <= 180, a1.v > 0, a1.v < 180, a2.v > -180, a2.v <= 180)
                if bool(SBool(canonical)):
                    # away from gimbal lock the decomposition into canonical ranges is unique: the input angles themselves
                    for j, a in enumerate((a0, a1, a2)):
                        out[i, j] = SAngle(a.c, a.s, "deg" if degrees else "rad", (next(_prov), seq, j, M))._carry(a._v, a)
                    continue
            mkey = (seq, tuple(M[r][q].get_id() for r in range(3) for q in range(3)))
            hit = memo.get(mkey)
            if hit is not None and all(hit[0][r][q].eq(M[r][q]) for r in range(3) for q in range(3)):
                # as_euler is a function: the same rotation gives the same angles
                for j in range(3):
                    a = hit[1][j]
                    out[i, j] = SAngle(a.c, a.s, "deg" if degrees else "rad", a.prov)._carry(a._v, a)
                continue
            k = next(_prov)
            angs = []
            for j in range(3):
                a = SAngle.fresh("eul%d_%d!%d" % (k, j, next(c.fresh)), "deg" if degrees else "rad")
                # numeric value in degrees with scipy's documented ranges
                vv = z3.Real("eulv%d_%d!%d" % (k, j, next(c.fresh)))
                a._v = vv
                rng = (z3.And(vv >= 0, vv <= 180) if proper else z3.And(vv >= -90, vv <= 90)) if j == 1 else z3.And(vv > -180, vv <= 180)
                # range and link between value and circle position (quadrant boundaries); assumed on first numeric use
                a._vax = [rng, z3.And(z3.Implies(vv == 0, z3.And(a.c == 1, a.s == 0)), z3.Implies(z3.And(a.c == 1, a.s == 0), vv == 0),
                                      z3.Implies(vv == 180, z3.And(a.c == -1, a.s == 0)), z3.Implies(z3.And(a.c == -1, a.s == 0), vv == 180),
                                      z3.Implies(z3.And(vv > 0, vv < 180), a.s > 0), z3.Implies(vv < 0, a.s < 0),
                                      z3.Implies(a.s > 0, z3.And(vv > 0, vv < 180)), z3.Implies(a.s < 0, vv < 0))]
                angs.append(a)
            memo[mkey] = (M, angs)
            E = euler_matrix(seq, [(a.c, a.s) for a in angs])
            c.assume(z3.And([E[r][q] == M[r][q] for r in range(3) for q in range(3)]))
            c.assume(angs[1].s >= 0 if proper else angs[1].c >= 0)
            for j in range(3):
                angs[j].prov = (k, seq, j, M)
                out[i, j] = angs[j]
        return out[0] if self.single else out

    def as_quat(self, canonical=False, scalar_first=False):
        """Fresh unit quaternion (x,y,z,w) whose rotation matrix equals the rotation (either sign).
        Hinted lemma (proved by the solver once per process, then instantiated for every pair of quaternions of the
        path): for unit quaternions p, q with matrices P, Q:  4 <p,q>^2 = 1 + trace(P^T Q)."""
        c = ctx()
        out = np.empty((len(self.mats), 4), dtype=object)
        reg = c.__dict__.setdefault("_quats", [])
        memo = c.__dict__.setdefault("_quat_memo", {})
        dots = c.__dict__.setdefault("_qdots", {})          # (i, j), i < j  ->  name of <quat_i, quat_j>
        defs = c.__dict__.setdefault("_qdot_defs", [])      # (name, polynomial): definitional equalities, for folding
        for i, M in enumerate(self.mats):
            # as_quat is a FUNCTION of the rotation (scipy returns the same quaternion for the same rotation every time):
            # the same matrix terms get the same quaternion symbols
            mkey = tuple(M[a][b].get_id() for a in range(3) for b in range(3))
            if mkey in memo and all(memo[mkey][1][a][b].eq(M[a][b]) for a in range(3) for b in range(3)):
                x, y, z, w = memo[mkey][0]
                if canonical:
                    c.assume(w >= 0)
                vals = [w, x, y, z] if scalar_first else [x, y, z, w]
                for j in range(4):
                    out[i, j] = SNum(vals[j])
                continue
            k = next(c.fresh)
            x, y, z, w = [z3.Real("q%s!%d" % (n, k)) for n in "xyzw"]
            orthogonality_lemmas(M, getattr(self, "leaf", False))
            me = len(reg)
            if _lemma_quat_trace():
                for j2, (q2, M2) in enumerate(reg + [((x, y, z, w), M)]):
                    dot = x * q2[0] + y * q2[1] + z * q2[2] + w * q2[3]
                    tr = sum((M[a][b] * M2[a][b] for a in range(3) for b in range(3)), ZERO)
                    t = z3.Real("qdot!%d" % next(c.fresh))       # name for <p,q>: keeps the lemma quadratic in ONE symbol
                    c.assume(t == dot)
                    c.assume(4 * t * t == 1 + tr)
                    c.assume(4 * dot * dot == 1 + tr)        # same lemma with the product written out (for monomial matching)
                    if _lemma_quat_cs():
                        c.assume(z3.And(t * t <= 1, t <= 1, t >= -1))      # Cauchy-Schwarz for unit quaternions
                    if j2 < me:
                        dots[(j2, me)] = t
                        defs.append((t, dot))
                if me >= 2 and _lemma_gram():
                    # Gram determinant of three unit quaternions is non-negative (over the NAMES of the inner products)
                    for i1 in range(me):
                        for i2 in range(i1 + 1, me):
                            a_, b_, c_ = dots.get((i1, i2)), dots.get((i2, me)), dots.get((i1, me))
                            if a_ is not None and b_ is not None and c_ is not None:
                                c.assume(1 + 2 * a_ * b_ * c_ - a_ * a_ - b_ * b_ - c_ * c_ >= 0)
            reg.append(((x, y, z, w), M))
            memo[mkey] = ((x, y, z, w), M)
            c.assume(x * x + y * y + z * z + w * w == 1)
            Q = [[1 - 2 * (y * y + z * z), 2 * (x * y - z * w), 2 * (x * z + y * w)],
                 [2 * (x * y + z * w), 1 - 2 * (x * x + z * z), 2 * (y * z - x * w)],
                 [2 * (x * z - y * w), 2 * (y * z + x * w), 1 - 2 * (x * x + y * y)]]
            c.assume(z3.And([Q[r][q] == M[r][q] for r in range(3) for q in range(3)]), heavy=_lemma_quat_trace())
            if canonical:
                c.assume(w >= 0)
            vals = [w, x, y, z] if scalar_first else [x, y, z, w]
            for j in range(4):
                out[i, j] = SNum(vals[j])
        return out[0] if self.single else out

    def magnitude(self):
        raise Unsupported("Rotation.magnitude")


_LEMMAS = {}


def _lemma_quat_trace():
    """4<p,q>^2 = 1 + trace(R(p)^T R(q)) for unit quaternions: decided by z3 (about 0.05 s), cached per process"""
    if "qt" not in _LEMMAS:
        from . import solve
        p = z3.Reals("lp_x lp_y lp_z lp_w")
        q = z3.Reals("lq_x lq_y lq_z lq_w")

        def Rq(x, y, z, w):
            return [[1 - 2 * (y * y + z * z), 2 * (x * y - z * w), 2 * (x * z + y * w)],
                    [2 * (x * y + z * w), 1 - 2 * (x * x + z * z), 2 * (y * z - x * w)],
                    [2 * (x * z - y * w), 2 * (y * z + x * w), 1 - 2 * (x * x + y * y)]]
        A, B = Rq(*p), Rq(*q)
        tr = sum(A[k][i] * B[k][i] for i in range(3) for k in range(3))
        dot = sum(a * b for a, b in zip(p, q))
        r, _, _ = solve.check([sum(a * a for a in p) == 1, sum(a * a for a in q) == 1, z3.Not(4 * dot * dot == 1 + tr)], timeout=30, solvers=("z3",))
        _LEMMAS["qt"] = (r == "unsat")
    return _LEMMAS["qt"]


def _lemma_euler_orthogonal():
    """Generic lemma, proved once per process by z3: the Euler matrix of three unit (cos, sin) pairs is orthogonal (for
    every sequence the repository uses).  Instances for concrete angle terms are then assumed without a solver call."""
    if "eo" not in _LEMMAS:
        from . import solve
        ok = True
        for seq in ("zxz", "ZXZ", "ZYZ", "zyx"):
            cs = [(z3.Real("lo_c%d" % j), z3.Real("lo_s%d" % j)) for j in range(3)]
            M = euler_matrix(seq, cs)
            facts = [z3.simplify(sum((M[k][a] * M[k][b] for k in range(3)), ZERO)) == (1 if a == b else 0) for a in range(3) for b in range(a, 3)]
            r, _, _ = solve.check([c_ * c_ + s_ * s_ == 1 for c_, s_ in cs] + [z3.Not(z3.And(facts))], timeout=30, solvers=("z3",))
            ok = ok and r == "unsat"
        _LEMMAS["eo"] = ok
    return _LEMMAS["eo"]


def _lemma_gram():
    """1 + 2abc - a^2 - b^2 - c^2 >= 0 for the pairwise inner products a, b, c of three unit vectors of R^4 (their Gram
    determinant).  Proof handed over as hints and closed by linear arithmetic over monomials: Cauchy-Binet (the Gram
    determinant is the sum of the squares of the four 3x3 minors - a polynomial identity the monomial abstraction sees by
    itself), the four squares being non-negative, and products of the unit equalities with polynomials ((|p|^2-1)*t = 0 is
    a consequence of |p|^2 = 1 for every t)."""
    if "gr" not in _LEMMAS:
        import itertools
        from . import solve
        p = z3.Reals("g_p0 g_p1 g_p2 g_p3")
        q = z3.Reals("g_q0 g_q1 g_q2 g_q3")
        r = z3.Reals("g_r0 g_r1 g_r2 g_r3")

        def dot(u, v):
            return sum(a * b for a, b in zip(u, v))

        def det3(m):
            return (m[0][0] * (m[1][1] * m[2][2] - m[1][2] * m[2][1]) - m[0][1] * (m[1][0] * m[2][2] - m[1][2] * m[2][0])
                    + m[0][2] * (m[1][0] * m[2][1] - m[1][1] * m[2][0]))
        A, B, C = dot(p, p), dot(q, q), dot(r, r)
        a, b, c = dot(p, q), dot(q, r), dot(p, r)
        minors = [det3([[v[i] for i in idx] for v in (p, q, r)]) for idx in itertools.combinations(range(4), 3)]
        hints = [m * m >= 0 for m in minors]
        hints += [(A - 1) * B * C == 0, (B - 1) * C == 0, (A - 1) * b * b == 0, (B - 1) * c * c == 0, (C - 1) * a * a == 0]
        goal = 1 + 2 * a * b * c - a * a - b * b - c * c >= 0
        r1, _, _ = solve.check([A == 1, B == 1, C == 1] + hints + [z3.Not(goal)], timeout=60, solvers=("z3",))
        _LEMMAS["gr"] = (r1 == "unsat")
    return _LEMMAS["gr"]


def _lemma_quat_cs():
    """<p,q>^2 <= 1 for unit quaternions.  No back end finds it unaided; the proof is handed over as hints (Lagrange's
    identity |p|^2|q|^2 - <p,q>^2 = sum_{i<j} (p_i q_j - p_j q_i)^2 is a polynomial identity that the monomial
    abstraction sees by itself; the hints are |p|^2|q|^2 = 1 and the non-negativity of the six squares), after which
    linear arithmetic over monomials closes it.  Proved once per process."""
    if "cs" not in _LEMMAS:
        from . import solve
        p = z3.Reals("cs_p0 cs_p1 cs_p2 cs_p3")
        q = z3.Reals("cs_q0 cs_q1 cs_q2 cs_q3")
        n1, n2 = sum(a * a for a in p), sum(a * a for a in q)
        dot = sum(a * b for a, b in zip(p, q))
        hints = [n1 * n2 == 1]
        for i in range(4):
            for j in range(i + 1, 4):
                d = p[i] * q[j] - p[j] * q[i]
                hints.append(d * d >= 0)
        # the hint n1*n2 == 1 is itself a consequence of n1 == 1 and n2 == 1 (checked first)
        r0, _, _ = solve.check([n1 == 1, n2 == 1, z3.Not(n1 * n2 == 1)], timeout=20, solvers=("z3",))
        r1, _, _ = solve.check([n1 == 1, n2 == 1] + hints + [z3.Not(dot * dot <= 1)], timeout=20, solvers=("z3",))
        _LEMMAS["cs"] = (r0 == "unsat" and r1 == "unsat")
    return _LEMMAS["cs"]


LEMMA_TEXT = {
    "qt": ("quaternion-trace: |p| = |q| = 1  ==>  4<p,q>^2 = 1 + trace(R(p)^T R(q))", "one z3 query (non-linear reals), unaided"),
    "eo": ("Euler-matrix orthogonality: c_j^2 + s_j^2 = 1 (j = 1..3)  ==>  M^T M = I for M = Euler matrix of (zxz | ZXZ | ZYZ | zyx)", "one z3 query per sequence, unaided"),
    "gr": ("Gram determinant: |p| = |q| = |r| = 1 in R^4  ==>  1 + 2<p,q><q,r><p,r> - <p,q>^2 - <q,r>^2 - <p,r>^2 >= 0",
           "one linearised z3 query from the hints: squares of the four 3x3 minors >= 0 (Cauchy-Binet is seen by the monomial abstraction), products of the unit equalities with polynomials"),
    "cs": ("Cauchy-Schwarz for unit quaternions: |p| = |q| = 1  ==>  <p,q>^2 <= 1",
           "two z3 queries: |p|^2 |q|^2 = 1 from the premises; then the goal from that and the hints (p_i q_j - p_j q_i)^2 >= 0 (Lagrange's identity is seen by the monomial abstraction)"),
}


def lemma_report(keys):
    """Re-prove (in this process, timed) the hinted lemmas the workers relied on; for the evidence file."""
    import time as _t
    out = []
    for k in keys:
        fn = {"qt": _lemma_quat_trace, "eo": _lemma_euler_orthogonal, "cs": _lemma_quat_cs, "gr": _lemma_gram}.get(k)
        if fn is None:
            continue
        _LEMMAS.pop(k, None)
        t0 = _t.time()
        ok = fn()
        out.append({"lemma": LEMMA_TEXT[k][0], "proof": LEMMA_TEXT[k][1], "proved_unsat": bool(ok), "seconds": round(_t.time() - t0, 2),
                    "use": "asserted as an axiom instance for the rotations of a path only when proved in the same process"})
    return out


def orthogonality_lemmas(M, leaf=False):
    """Instances M^T M = I for a rotation matrix of the path (they let the back ends see |R z| = 1, trace(R^T R) = 3).
    Matrices built directly from Euler angles are instances of the generic lemma; others are proved individually."""
    from . import solve
    c = ctx()
    if leaf and _lemma_euler_orthogonal():
        done = c.__dict__.setdefault("_ortho_done", {})
        key = tuple(M[a][b].get_id() for a in range(3) for b in range(3))
        if key in done:
            return
        done[key] = M
        facts = [z3.simplify(sum((M[k][a] * M[k][b] for k in range(3)), ZERO)) == (1 if a == b else 0) for a in range(3) for b in range(a, 3)]
        c.assume(z3.And(facts))
        return
    if not leaf:
        return      # products of rotations: no instance is generated (their polynomials are too large to help)
    done = c.__dict__.setdefault("_ortho_done", {})
    key = tuple(M[a][b].get_id() for a in range(3) for b in range(3))
    if key in done:
        return
    done[key] = M
    facts = []
    for a in range(3):
        for b in range(a, 3):
            lhs = z3.simplify(sum((M[k][a] * M[k][b] for k in range(3)), ZERO))
            facts.append(lhs == (1 if a == b else 0))
    goal = z3.And(facts)
    rel, _ = solve.slice_for(c.pc(), [goal])
    r, _, _ = solve.check(rel + [z3.Not(goal)], timeout=10, solvers=("z3",))
    if r == "unsat":
        c.assume(goal)


def matrix_of_angles(seq, angles_deg):
    """Oracle helper (independent of from_euler's provenance path): matrix for (SAngle|float) triple."""
    return euler_matrix(seq, [as_cs(a, True) for a in angles_deg])
