"""Exact polynomial rotation algebra standing in for scipy.spatial.transform.Rotation (DESIGN 2.2, 3.1).

A rotation is a 3x3 matrix of z3 Real terms.  Angles are `SAngle`s (cos, sin pairs); plain floats become
named/exact constants.  `as_euler` is specified by scipy's contract (fresh angles whose Euler matrix equals
the rotation, middle-angle range) and remembers what it decomposed (provenance)."""
import itertools, math, numbers
import numpy as np
import z3
from .core import SAngle, SNum, SSqrt, Sym, ctx, zreal, is_sym, Unsupported, const_cos_sin

ONE, ZERO = z3.RealVal(1), z3.RealVal(0)


def mm(A, B):
    return [[z3.simplify(sum((A[i][k] * B[k][j] for k in range(3)), ZERO)) for j in range(3)] for i in range(3)]


def mT(A):
    return [[A[j][i] for j in range(3)] for i in range(3)]


def mv(A, v):
    return [z3.simplify(sum((A[i][k] * v[k] for k in range(3)), ZERO)) for i in range(3)]


IDENT = [[ONE, ZERO, ZERO], [ZERO, ONE, ZERO], [ZERO, ZERO, ONE]]


def elem(axis, c, s):
    if axis == "z":
        return [[c, -s, ZERO], [s, c, ZERO], [ZERO, ZERO, ONE]]
    if axis == "x":
        return [[ONE, ZERO, ZERO], [ZERO, c, -s], [ZERO, s, c]]
    if axis == "y":
        return [[c, ZERO, s], [ZERO, ONE, ZERO], [-s, ZERO, c]]
    raise ValueError(axis)


def euler_matrix(seq, angs):
    """angs: list of (c, s).  lowercase = extrinsic: R = R3 R2 R1; uppercase = intrinsic: R = R1 R2 R3."""
    Ms = [elem(ch.lower(), c, s) for ch, (c, s) in zip(seq, angs)]
    if len(Ms) == 1:
        return Ms[0]
    if seq.islower():
        M = Ms[0]
        for X in Ms[1:]:
            M = mm(X, M)
        return M
    M = Ms[0]
    for X in Ms[1:]:
        M = mm(M, X)
    return M


def as_cs(a, degrees):
    if isinstance(a, SAngle):
        return (a.c, a.s)
    if isinstance(a, Sym):
        raise Unsupported("Rotation.from_euler on a symbolic number that is not an angle")
    d = float(a) if degrees else math.degrees(float(a))
    return const_cos_sin(d)


_prov = itertools.count()


class Rotation:
    def __init__(self, mats, single=False):
        self.mats = mats
        self.single = single

    # ---- constructors
    @classmethod
    def from_euler(cls, seq, angles, degrees=False):
        if hasattr(angles, "to_numpy"):
            angles = angles.to_numpy()
        arr = np.asarray(angles, dtype=object)
        if len(seq) == 1:
            single = arr.ndim == 0
            arr = arr.reshape(-1, 1)
        else:
            single = arr.ndim == 1
            arr = np.atleast_2d(arr)
        if arr.shape[1] != len(seq):
            raise ValueError("Expected `angles` to have shape (N, %d), got %s" % (len(seq), arr.shape))
        mats = []
        for row in arr:
            provs = [getattr(a, "prov", None) for a in row]
            if (len(seq) == 3 and all(p is not None for p in provs) and len({p[0] for p in provs}) == 1
                    and provs[0][1] == seq and [p[2] for p in provs] == [0, 1, 2]):
                mats.append(provs[0][3])   # from_euler(seq, as_euler(seq)) == R  (library contract)
                continue
            mats.append(euler_matrix(seq, [as_cs(a, degrees) for a in row]))
        return cls(mats, single)

    @classmethod
    def from_matrix(cls, m):
        a = np.asarray(m, dtype=object)
        if a.ndim == 2:
            return cls([[[zreal(a[i, j]) for j in range(3)] for i in range(3)]], True)
        return cls([[[zreal(x[i, j]) for j in range(3)] for i in range(3)] for x in a], False)

    @classmethod
    def identity(cls, num=None):
        if num is None:
            return cls([IDENT], True)
        return cls([IDENT] * num, False)

    @classmethod
    def concatenate(cls, rots):
        mats = []
        for r in rots:
            mats.extend(r.mats)
        return cls(mats, False)

    @classmethod
    def from_quat(cls, q):
        a = np.asarray(q, dtype=object)
        single = a.ndim == 1
        a = np.atleast_2d(a)
        mats = []
        for row in a:
            x, y, z, w = [zreal(v) for v in row]
            n = x * x + y * y + z * z + w * w
            M = [[(w * w + x * x - y * y - z * z) / n, 2 * (x * y - z * w) / n, 2 * (x * z + y * w) / n],
                 [2 * (x * y + z * w) / n, (w * w - x * x + y * y - z * z) / n, 2 * (y * z - x * w) / n],
                 [2 * (x * z - y * w) / n, 2 * (y * z + x * w) / n, (w * w - x * x - y * y + z * z) / n]]
            mats.append(M)
        return cls(mats, single)

    # ---- algebra
    def __len__(self):
        if self.single:
            raise TypeError("Single rotation has no len().")
        return len(self.mats)

    def __getitem__(self, k):
        if self.single:
            raise TypeError("Single rotation is not subscriptable.")
        if isinstance(k, (int, np.integer)):
            return Rotation([self.mats[k]], True)
        idx = np.arange(len(self.mats))[k]
        return Rotation([self.mats[i] for i in np.atleast_1d(idx)], False)

    def __iter__(self):
        for m in self.mats:
            yield Rotation([m], True)

    def _bc(self, o):
        n = max(len(self.mats), len(o.mats))
        if len(self.mats) not in (1, n) or len(o.mats) not in (1, n):
            raise ValueError("Expected equal number of rotations in both or a single rotation")
        A = self.mats * n if len(self.mats) == 1 else self.mats
        B = o.mats * n if len(o.mats) == 1 else o.mats
        return A, B

    def __mul__(self, o):
        if not isinstance(o, Rotation):
            return NotImplemented
        A, B = self._bc(o)
        return Rotation([mm(a, b) for a, b in zip(A, B)], self.single and o.single)

    def inv(self):
        return Rotation([mT(m) for m in self.mats], self.single)

    def apply(self, vectors, inverse=False):
        v = np.asarray(vectors, dtype=object)
        single_v = v.ndim == 1
        V = np.atleast_2d(v)
        if V.shape[1] != 3:
            raise ValueError("Expected input of shape (3,) or (P, 3), got %s" % (v.shape,))
        n = max(len(self.mats), len(V))
        if len(self.mats) not in (1, n) or len(V) not in (1, n):
            raise ValueError("Expected equal numbers of rotations and vectors, or a single rotation or vector")
        M = self.mats * n if len(self.mats) == 1 else self.mats
        VV = list(V) * n if len(V) == 1 else list(V)
        out = np.empty((n, 3), dtype=object)
        for i in range(n):
            A = mT(M[i]) if inverse else M[i]
            r = mv(A, [zreal(VV[i][k]) for k in range(3)])
            for k in range(3):
                out[i, k] = SNum(r[k])
        if self.single and single_v:
            return out[0]
        return out

    def as_matrix(self):
        def conv(m):
            a = np.empty((3, 3), dtype=object)
            for i in range(3):
                for j in range(3):
                    a[i, j] = SNum(m[i][j])
            return a
        if self.single:
            return conv(self.mats[0])
        out = np.empty((len(self.mats), 3, 3), dtype=object)
        for k, m in enumerate(self.mats):
            out[k] = conv(m)
        return out

    def as_euler(self, seq, degrees=False):
        c = ctx()
        out = np.empty((len(self.mats), 3), dtype=object)
        proper = seq[0].lower() == seq[2].lower()
        for i, M in enumerate(self.mats):
            k = next(_prov)
            angs = []
            for j in range(3):
                a = SAngle.fresh("eul%d_%d!%d" % (k, j, next(c.fresh)), "deg" if degrees else "rad")
                angs.append(a)
            E = euler_matrix(seq, [(a.c, a.s) for a in angs])
            c.assume(z3.And([E[r][q] == M[r][q] for r in range(3) for q in range(3)]))
            c.assume(angs[1].s >= 0 if proper else angs[1].c >= 0)
            for j in range(3):
                angs[j].prov = (k, seq, j, M)
                out[i, j] = angs[j]
        return out[0] if self.single else out

    def as_quat(self, canonical=False, scalar_first=False):
        """Fresh unit quaternion (x,y,z,w) whose rotation matrix equals the rotation (either sign)."""
        c = ctx()
        out = np.empty((len(self.mats), 4), dtype=object)
        for i, M in enumerate(self.mats):
            k = next(c.fresh)
            x, y, z, w = [z3.Real("q%s!%d" % (n, k)) for n in "xyzw"]
            c.assume(x * x + y * y + z * z + w * w == 1)
            Q = [[1 - 2 * (y * y + z * z), 2 * (x * y - z * w), 2 * (x * z + y * w)],
                 [2 * (x * y + z * w), 1 - 2 * (x * x + z * z), 2 * (y * z - x * w)],
                 [2 * (x * z - y * w), 2 * (y * z + x * w), 1 - 2 * (x * x + y * y)]]
            c.assume(z3.And([Q[r][q] == M[r][q] for r in range(3) for q in range(3)]))
            if canonical:
                c.assume(w >= 0)
            vals = [w, x, y, z] if scalar_first else [x, y, z, w]
            for j in range(4):
                out[i, j] = SNum(vals[j])
        return out[0] if self.single else out

    def magnitude(self):
        raise Unsupported("Rotation.magnitude")


def matrix_of_angles(seq, angles_deg):
    """Oracle helper (independent of from_euler's provenance path): matrix for (SAngle|float) triple."""
    return euler_matrix(seq, [as_cs(a, True) for a in angles_deg])
