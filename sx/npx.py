"""numpy proxy bound to the name `np` inside symbolically loaded cryocat modules.

Falls through to real numpy.  Object arrays that hold no symbolic scalar are demoted to float64 before a
real numpy function sees them; functions that cannot work on symbolic elements get elementwise versions."""
import math, numbers, types
from fractions import Fraction
import numpy as _np
import z3
from . import core
from .core import Sym, SNum, SBool, SAngle, SSqrt, is_sym, Unsupported, ctx, zreal


STATE = {"lazy": False}     # harness option: build lazy arrays even for concrete extents (ndim >= 2)


def _is_larray(x):
    return type(x).__name__ == "LArray"


def has_sym(x, depth=0):
    if isinstance(x, Sym) or _is_larray(x):
        return True
    if isinstance(x, _np.ndarray):
        if x.dtype == object:
            for v in x.flat:
                if isinstance(v, Sym) or _is_larray(v):
                    return True
        return False
    if isinstance(x, (list, tuple)) and depth < 4:
        return any(has_sym(v, depth + 1) for v in x)
    if type(x).__name__ in ("Series", "DataFrame", "Index"):
        try:
            return has_sym(x.to_numpy(), depth + 1)
        except Exception:
            return False
    return False


def _demote(x):
    if isinstance(x, _np.ndarray) and x.dtype == object and x.size and not has_sym(x):
        try:
            return x.astype(float)
        except (TypeError, ValueError):
            return x
    if isinstance(x, list) and x and all(isinstance(v, _np.ndarray) for v in x):
        return [_demote(v) for v in x]
    if isinstance(x, tuple) and x and all(isinstance(v, _np.ndarray) for v in x):
        return tuple(_demote(v) for v in x)
    return x


def obj(x):
    """object ndarray view of anything array-like"""
    if isinstance(x, _np.ndarray):
        return x if x.dtype == object else x.astype(object)
    if hasattr(x, "to_numpy"):
        return obj(x.to_numpy())
    if isinstance(x, Sym):
        a = _np.empty((), dtype=object)
        a[()] = x
        return a
    if isinstance(x, (list, tuple)):
        def shape_of(v):
            if isinstance(v, Sym):
                return ()
            if isinstance(v, _np.ndarray):
                return v.shape
            if hasattr(v, "to_numpy"):
                return v.to_numpy().shape
            if isinstance(v, (list, tuple)):
                if len(v) == 0:
                    return (0,)
                shs = [shape_of(u) for u in v]
                if any(sh != shs[0] for sh in shs):
                    raise ValueError("ragged nested sequence")
                return (len(v),) + shs[0]
            return ()
        shp = shape_of(x)
        out = _np.empty(shp, dtype=object)

        def fill(v, idx):
            if isinstance(v, (list, tuple)):
                for i, u in enumerate(v):
                    fill(u, idx + (i,))
            elif isinstance(v, _np.ndarray) and v.ndim > 0:
                for i in range(v.shape[0]):
                    fill(v[i], idx + (i,))
            elif hasattr(v, "to_numpy"):
                fill(v.to_numpy(), idx)
            else:
                if isinstance(v, _np.ndarray):
                    v = v.item()
                out[idx] = v
        fill(x, ())
        return out
    a = _np.empty((), dtype=object)
    a[()] = x
    return a


def _ew1(fsym, freal, npname=None):
    def f(x, *a, **k):
        if not has_sym(x):
            x2 = _demote(x) if isinstance(x, _np.ndarray) else x
            if npname is not None:
                return getattr(_np, npname)(x2, *a, **k)
            return freal(x2, *a, **k)
        if isinstance(x, Sym):
            return fsym(x)
        if _is_larray(x):
            return x._ew1(fsym)
        xa = obj(x)
        out = _np.empty(xa.shape, dtype=object)
        for idx in _np.ndindex(*xa.shape):
            v = xa[idx]
            out[idx] = fsym(v) if isinstance(v, Sym) else freal(v)
        return out
    return f


def _s_sqrt(v):
    if isinstance(v, SSqrt):
        return v.value().sqrt()
    if isinstance(v, SNum):
        return v.sqrt()
    raise Unsupported("sqrt of %s" % type(v).__name__)


def _s_cos(v):
    if isinstance(v, SAngle):
        return v.cos()
    raise Unsupported("cos of a symbolic number that is not an angle")


def _s_sin(v):
    if isinstance(v, SAngle):
        return v.sin()
    raise Unsupported("sin of a symbolic number that is not an angle")


def _s_tan(v):
    if isinstance(v, SAngle):
        return SNum(v.s) / SNum(v.c)
    raise Unsupported("tan of a symbolic number that is not an angle")


def _s_abs(v):
    if isinstance(v, SAngle):
        return abs(v)
    if isinstance(v, SSqrt):
        return v
    if isinstance(v, SNum):
        return abs(v)
    if isinstance(v, SBool):
        return v._num()
    raise Unsupported("abs")


def _s_deg2rad(v):
    if isinstance(v, SAngle):
        return v.deg2rad()
    raise Unsupported("deg2rad of non-angle")


def _s_rad2deg(v):
    if isinstance(v, (SAngle, SAcos)):
        return v.rad2deg()
    raise Unsupported("rad2deg of non-angle")


def _s_arccos(v):
    return SAcos(zreal(v))


class SAcos(SNum):
    """k * acos(arg) (radians, or degrees when deg=True) with acos uninterpreted; keeps `arg` and `k` so that oracles
    compare arguments.  Axioms per argument: range [0,pi]; acos(1)=0 (and only there); arg>=0 => acos<=pi/2."""

    def __init__(self, arg, k=1, deg=False):
        self.arg = z3.simplify(arg)
        self.k, self.deg = Fraction(k), deg
        f = core.ufun("acos", 1)
        a = f(self.arg)
        c = ctx()
        pi = pi_const()
        key = self.arg.get_id()
        done = c.__dict__.setdefault("_acos_done", {})
        if key not in done:
            done[key] = self.arg
            c.assume(z3.And(a >= 0, a <= pi))
            c.assume(z3.Implies(self.arg == 1, a == 0))
            c.assume(z3.Implies(a == 0, self.arg == 1))
            c.assume(z3.Implies(self.arg >= 0, a * 2 <= pi))
            c.assume(z3.Implies(self.arg <= 0, a * 2 >= pi))
        if deg:
            # value in degrees = k * acos * 180 / pi, introduced as a symbol d with d * pi = k * 180 * acos
            d = z3.Real("acosdeg_%d_%s" % (self.arg.hash() & 0xffffffff, str(self.k).replace("/", "_")))
            kk = z3.RealVal(str(self.k * 180))
            if ("deg", key, self.k) not in done:
                done[("deg", key, self.k)] = True
                # bounds follow from the radian bounds: 0 <= d <= 180k ; d = 0 iff acos = 0; monotone pieces
                c.assume(z3.And(d >= 0, d <= kk))
                c.assume(z3.Implies(a == 0, d == 0))
                c.assume(z3.Implies(d == 0, a == 0))
                c.assume(z3.Implies(a * 2 <= pi, d * 2 <= kk))
                c.assume(z3.Implies(a * 2 >= pi, d * 2 >= kk))
            SNum.__init__(self, d)
        else:
            SNum.__init__(self, a * z3.RealVal(str(self.k)) if self.k != 1 else a)

    def __mul__(self, o):
        if isinstance(o, (int, float, _np.integer, _np.floating)) and not self.deg and float(o) > 0 and Fraction(float(o)).denominator <= 64:
            return SAcos(self.arg, self.k * Fraction(float(o)), False)
        return SNum.__mul__(self, o)

    __rmul__ = __mul__

    def rad2deg(self):
        if self.deg:
            raise Unsupported("degrees of degrees")
        return SAcos(self.arg, self.k, True)

    degrees = rad2deg


def pi_const():
    c = ctx()
    p = z3.Real("pi")
    if not c.__dict__.get("_pi_done"):
        c._pi_done = True
        c.assume(z3.And(p > z3.RealVal("3141592653589793/1000000000000000"), p < z3.RealVal("3141592653589794/1000000000000000")))
    return p


def _s_arctan2(y, x):
    """atan2 with symbolic arguments -> SAngle (radians) by its contract."""
    c = ctx()
    yz, xz = zreal(y), zreal(x)
    a = SAngle.fresh("atan2!%d" % next(c.fresh), "rad")
    rho = SSqrt(xz * xz + yz * yz).value().e
    # (x, y) = rho * (cos a, sin a), rho = sqrt(x^2+y^2) ; at the origin atan2(0,0)=0
    c.assume(z3.And(xz == rho * a.c, yz == rho * a.s))
    c.assume(z3.Implies(z3.And(xz == 0, yz == 0), z3.And(a.c == 1, a.s == 0)))
    return a


def _arctan2(y, x):
    if not (has_sym(y) or has_sym(x)):
        return _np.arctan2(_demote(y) if isinstance(y, _np.ndarray) else y, _demote(x) if isinstance(x, _np.ndarray) else x)
    if not isinstance(y, _np.ndarray) and not isinstance(x, _np.ndarray):
        return _s_arctan2(y, x)
    ya, xa = _np.broadcast_arrays(obj(y), obj(x))
    out = _np.empty(ya.shape, dtype=object)
    for idx in _np.ndindex(*ya.shape):
        if is_sym(ya[idx]) or is_sym(xa[idx]):
            out[idx] = _s_arctan2(ya[idx], xa[idx])
        else:
            out[idx] = math.atan2(ya[idx], xa[idx])
    return out


def _minmax(is_min):
    def f(a, b, *rest, **k):
        if _is_larray(a) or _is_larray(b):
            from . import lnp
            return (lnp.minimum if is_min else lnp.maximum)(a, b)
        if not (has_sym(a) or has_sym(b)):
            return (_np.minimum if is_min else _np.maximum)(_demote(a) if isinstance(a, _np.ndarray) else a, _demote(b) if isinstance(b, _np.ndarray) else b, *rest, **k)
        from . import larray
        aa, bb = _np.broadcast_arrays(obj(a), obj(b))
        out = _np.empty(aa.shape, dtype=object)
        for idx in _np.ndindex(*aa.shape):
            out[idx] = (larray.s_min if is_min else larray.s_max)(aa[idx], bb[idx])     # if-then-else, no path fork
        return out if out.ndim else out[()]
    return f


def _eye(n, *a, **k):
    r = _np.eye(n, *a, **k)
    return r.astype(object) if "dtype" not in k else r


def _unit_or_sqrt(sq):
    """norm of a vector whose squared length is provably 1 on this path (rotated unit vectors): the constant 1.0"""
    if not is_sym(sq):
        return float(sq) ** 0.5
    e = z3.simplify(zreal(sq))
    if z3.is_rational_value(e):
        return SSqrt(e)
    from . import solve
    c = ctx()
    if not c.__dict__.get("_ortho_done"):
        return SSqrt(e)            # only vectors produced by rotations can be unit vectors by construction
    rel, _ = solve.slice_for(c.pc_light() if c.__dict__.get("heavy") else c.pc(), [e])
    r, _, _ = solve.check(rel + [e != 1], timeout=3.0)
    if r == "unsat":
        return 1.0
    return SSqrt(e)


class _Linalg:
    def __getattr__(self, name):
        return getattr(_np.linalg, name)

    @staticmethod
    def norm(x, ord=None, axis=None, keepdims=False):
        if not has_sym(x):
            return _np.linalg.norm(_demote(x) if isinstance(x, _np.ndarray) else _np.asarray(x, dtype=float), ord=ord, axis=axis, keepdims=keepdims)
        if ord not in (None, 2):
            raise Unsupported("norm ord")
        xa = obj(x)
        sq = xa * xa
        s = sq.sum(axis=axis, keepdims=keepdims)
        if isinstance(s, _np.ndarray):
            out = _np.empty(s.shape, dtype=object)
            for idx in _np.ndindex(*s.shape):
                out[idx] = _unit_or_sqrt(s[idx])
            return out
        return _unit_or_sqrt(s)

    @staticmethod
    def inv(a):
        if not has_sym(a):
            return _np.linalg.inv(_demote(a) if isinstance(a, _np.ndarray) else a)
        A = obj(a)
        n = A.shape[0]
        # pure translation [[I, t], [0, 1]] -> [[I, -t], [0, 1]]
        ok = A.shape == (n, n)
        for i in range(n):
            for j in range(n - 1):
                v = A[i, j]
                if is_sym(v) or float(v) != (1.0 if i == j else 0.0):
                    ok = False
        if ok and not is_sym(A[n - 1, n - 1]) and float(A[n - 1, n - 1]) == 1.0:
            out = A.copy()
            for i in range(n - 1):
                out[i, n - 1] = -A[i, n - 1]
            return out
        raise Unsupported("linalg.inv on a symbolic matrix that is not a translation")


class SRandUnit(SNum):
    """a value of np.random.rand(): arbitrary real in [0,1); times 360 it is an arbitrary angle"""

    def __init__(self):
        c = ctx()
        v = c.fresh_real("rand")
        c.assume(z3.And(v >= 0, v < 1))
        SNum.__init__(self, v)

    def __mul__(self, o):
        if isinstance(o, (int, float)) and float(o) == 360.0:
            a = SAngle.fresh("rand%d" % next(ctx().fresh))
            a.v = self.e * 360
            return a
        return SNum.__mul__(self, o)

    __rmul__ = __mul__


class _Random:
    def __getattr__(self, name):
        return getattr(_np.random, name)

    @staticmethod
    def rand(*shape):
        if core.Ctx.cur is None:
            return _np.random.rand(*shape)
        out = _np.empty(shape, dtype=object)
        for idx in _np.ndindex(*shape):
            out[idx] = SRandUnit()
        return out


def _creation(name):
    real = getattr(_np, name)

    def f(shape, *a, **k):
        dt = k.get("dtype", a[0] if (a and name != "full") else None)
        if name == "full":
            fill = a[0] if a else k.get("fill_value")
            if has_sym(shape) or (STATE["lazy"] and isinstance(shape, (tuple, list, _np.ndarray)) and len(shape) >= 2):
                from . import larray
                return larray.full(tuple(shape), fill, "float64" if dt is None else _np.dtype(dt).name)
            if has_sym(fill):
                out = _np.empty(shape, dtype=object)
                out.fill(fill) if not isinstance(fill, Sym) else None
                if isinstance(fill, Sym):
                    for idx in _np.ndindex(*out.shape):
                        out[idx] = fill
                return out
            if has_sym(shape):
                from . import larray
                return larray.full(tuple(shape), fill, "float64" if dt is None else _np.dtype(dt).name)
            r = real(shape, *a, **k)
        else:
            if has_sym(shape) or (STATE["lazy"] and isinstance(shape, (tuple, list, _np.ndarray)) and len(shape) >= 2):
                from . import larray
                return larray.full(tuple(shape), {"zeros": 0.0, "ones": 1.0, "empty": 0.0}[name], "float64" if dt is None else _np.dtype(dt).name)
            r = real(shape, *a, **k)
        if dt is not None and name != "full":
            try:
                isf = _np.dtype(dt).kind == "f"
            except TypeError:
                isf = False
            if isf and core.Ctx.cur is not None:
                from . import fs
                return fs.tag(r.astype(object), _np.dtype(dt).name)      # float arrays may receive symbolic entries later
        if dt is None and r.dtype == _np.float64 and name != "empty":
            return r.astype(object)  # may receive symbolic entries later
        if dt is None and name == "empty":
            o = _np.empty(r.shape, dtype=object)
            o.fill(0.0)
            return o
        return r
    return f


class _MGrid:
    def __getitem__(self, key):
        if not isinstance(key, tuple):
            key = (key,)
        if not any(has_sym(sl.start) or has_sym(sl.stop) for sl in key) and not (STATE["lazy"] and len(key) >= 2):
            return _np.mgrid[key]
        from . import larray
        shape = []
        for sl in key:
            if sl.step not in (None, 1) or (sl.start not in (None, 0)):
                raise Unsupported("mgrid with start/step")
            shape.append(sl.stop)
        out = []
        for ax in range(len(key)):
            out.append(larray.LArray(shape, (lambda idx, ax=ax: idx[ax] if isinstance(idx[ax], Sym) else int(idx[ax])), "int64"))
        return out if len(out) > 1 else out[0]


class NPX(types.ModuleType):
    """Stands in for the numpy module."""

    def __init__(self):
        super().__init__("numpy")
        self.linalg = _Linalg()
        self.random = _Random()
        from . import numstubs
        self.fft = numstubs.FFT
        self._over = {
            "sqrt": _ew1(_s_sqrt, math.sqrt, "sqrt"),
            "cos": _ew1(_s_cos, math.cos, "cos"),
            "sin": _ew1(_s_sin, math.sin, "sin"),
            "arccos": _ew1(_s_arccos, math.acos, "arccos"),
            "abs": _ew1(_s_abs, abs, "abs"),
            "absolute": _ew1(_s_abs, abs, "absolute"),
            "fabs": _ew1(_s_abs, abs, "fabs"),
            "deg2rad": _ew1(_s_deg2rad, math.radians, "deg2rad"),
            "radians": _ew1(_s_deg2rad, math.radians, "radians"),
            "rad2deg": _ew1(_s_rad2deg, math.degrees, "rad2deg"),
            "degrees": _ew1(_s_rad2deg, math.degrees, "degrees"),
            "floor": _ew1(core.sx_floor, math.floor, "floor"),
            "ceil": _ew1(core.sx_ceil, math.ceil, "ceil"),
            "rint": _ew1(core.sx_round_half_even, round, "rint"),
            "round": _ew1(core.sx_round_half_even, round, "round"),
            "around": _ew1(core.sx_round_half_even, round, "around"),
            "exp": _ew1(lambda v: core.sx_fun("exp", v), math.exp, "exp"),
            "isnan": _ew1(lambda v: False, lambda v: v != v, "isnan"),
            "isfinite": _ew1(lambda v: True, math.isfinite, "isfinite"),
            "arctan2": _arctan2,
            "tan": _ew1(_s_tan, math.tan, "tan"),
            "minimum": _minmax(True),
            "maximum": _minmax(False),
            "eye": _eye,
            "zeros": _creation("zeros"),
            "ones": _creation("ones"),
            "empty": _creation("empty"),
            "full": _creation("full"),
            "array": self._array,
            "asarray": self._asarray,
        }

    @staticmethod
    def _array(x, *a, **k):
        if _is_larray(x):
            from . import lnp
            return lnp.array(x, *a, **k)
        if isinstance(x, (list, tuple)) and x and all(_is_larray(v) for v in x):
            from . import lnp
            return lnp.stack(list(x), axis=0)
        if has_sym(x) and not isinstance(x, _np.ndarray):
            return obj(x).copy()
        return _np.array(x, *a, **k)

    @staticmethod
    def _asarray(x, *a, **k):
        if _is_larray(x):
            return x
        if isinstance(x, (list, tuple)) and x and all(_is_larray(v) for v in x):
            from . import lnp
            return lnp.stack(list(x), axis=0)
        if has_sym(x) and not isinstance(x, _np.ndarray):
            return obj(x)
        return _np.asarray(x, *a, **k)

    @property
    def mgrid(self):
        return _MGrid()

    def __getattr__(self, name):
        ov = self.__dict__.get("_over", {})
        if name in ov:
            return ov[name]
        real = getattr(_np, name)
        if isinstance(real, (types.FunctionType, types.BuiltinFunctionType, _np.ufunc)) or (callable(real) and not isinstance(real, type) and not isinstance(real, types.ModuleType)):
            def wrapped(*a, **k):
                if STATE["lazy"] and name in ("meshgrid", "tile"):
                    from . import lnp, larray
                    if name == "meshgrid":
                        return lnp.meshgrid(*a, **k)
                    if isinstance(a[0], _np.ndarray) and has_sym(a[0]):
                        return lnp.tile(larray.from_numpy(a[0]), *a[1:], **k)
                if any(_is_larray(v) for v in a) or any(_is_larray(v) for v in k.values()) or (a and isinstance(a[0], (list, tuple)) and any(_is_larray(v) for v in a[0])):
                    from . import lnp
                    if not hasattr(lnp, name):
                        raise Unsupported("numpy.%s on a lazy array" % name)
                    return getattr(lnp, name)(*a, **k)
                return real(*[_demote(v) for v in a], **{kk: _demote(v) for kk, v in k.items()})
            wrapped.__name__ = name
            return wrapped
        return real
