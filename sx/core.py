"""Symbolic scalars (z3 terms) that live inside real numpy/pandas object arrays, and the path context.

Python `float` arithmetic of the code under test is modelled over the reals (assumption A0)."""
import itertools, math, numbers
from fractions import Fraction
import numpy as np
import z3
from . import solve


class PathAbort(BaseException):
    """Path is infeasible / cut (BaseException so repo `except Exception` cannot swallow it)."""


class Unsupported(BaseException):
    """Operation outside the modelled surface: the path is reported inconclusive, never passed."""


class Ctx:
    cur = None

    def __init__(self, prefix=(), qtimeout=30.0):
        self.prefix = list(prefix)
        self.nd = 0                 # free decisions taken so far
        self.trace = []             # (z3 cond, value, forced)
        self.decisions = []         # values of free decisions in order
        self.dec_pos = []           # trace index of every recorded decision (same order as `decisions`)
        self.domains = {}           # var name -> list of python values (declared finite domains)
        self.qtimeout = qtimeout
        self.nq = 0
        self.fresh = itertools.count()
        self.inconclusive = []      # reasons
        self.notes = []

    # -- path condition ---------------------------------------------------------------------
    def pc(self):
        return [c if v else z3.Not(c) for c, v, _ in self.trace]

    def assume(self, cond, heavy=False):
        """`heavy`: a defining axiom that is expensive for the non-linear back ends and usually not needed because
        cheaper consequences (hinted lemmas) are assumed next to it.  Queries are tried WITHOUT the heavy axioms first
        (unsat from fewer assumptions is still unsat) and with them only if that does not settle the question."""
        cond = zbool(cond)
        self.trace.append((cond, True, True))
        if heavy:
            self.__dict__.setdefault("heavy", {})[cond.get_id()] = cond

    def pc_light(self):
        hv = self.__dict__.get("heavy", {})
        return [c if v else z3.Not(c) for c, v, _ in self.trace if not (v and c.get_id() in hv and hv[c.get_id()].eq(c))]

    def feasible(self, *extra):
        """Branch feasibility.  `unsat` is only ever concluded from a subset of the path condition (sound); when the
        relevant part of the path condition is non-linear, the cheap check over the assumptions that mention only the
        branch condition's own symbols is used and anything not refuted there counts as feasible (a spuriously explored
        path costs time, not soundness: obligations are decided under the full path condition)."""
        self.nq += 1
        extra = list(extra)
        pc = self.pc_light() if self.__dict__.get("heavy") else self.pc()
        rel, _ = solve.slice_for(pc, extra)
        if any(solve.is_nonlinear(a) for a in rel + extra):
            gs = set()
            for e in extra:
                gs |= set(solve._syms(e))
            sub = [a for a in rel if solve._syms(a) <= gs]
            if sub and not any(solve.is_nonlinear(a) for a in sub + extra):
                r, _, _ = solve.check(sub + extra, timeout=self.qtimeout)
                if r == "unsat":
                    return "unsat"
            # non-linear cone: only the cheap abstractions (monomial linearisation) are tried for pruning
            r, _, _ = solve.check(rel + extra, timeout=min(self.qtimeout, 5.0), cheap_only=not getattr(self, "full_feasibility", False))
            return "unsat" if r == "unsat" else "sat"
        r, _, _ = solve.check(rel + extra, timeout=self.qtimeout)
        return r

    def decide(self, cond):
        """Branch on a symbolic condition.  `decisions` records EVERY solver-relevant decision in order as
        [value, forced]; a replayed prefix therefore stays aligned with the original run (forced ones are
        replayed without a query, free ones are the fork points)."""
        cond = z3.simplify(cond)
        if z3.is_true(cond):
            return True
        if z3.is_false(cond):
            return False
        if self.nd < len(self.prefix):
            val, forced = self.prefix[self.nd]
            self.nd += 1
            self.decisions.append([val, forced])
            self.dec_pos.append(len(self.trace))
            self.trace.append((cond, val, forced))
            return val
        rt = self.feasible(cond)
        rf = self.feasible(z3.Not(cond))
        if rt == "unknown" or rf == "unknown":
            # cannot prune: unknown counts as feasible (obligations are still decided under the full
            # path condition, and any counterexample is replayed concretely) but it is recorded
            self.inconclusive.append("feasibility unknown")
        can_t = rt != "unsat"
        can_f = rf != "unsat"
        if not can_t and not can_f:
            raise PathAbort("infeasible")
        forced = not (can_t and can_f)
        val = can_t
        self.nd += 1
        self.decisions.append([val, forced])
        self.dec_pos.append(len(self.trace))
        self.trace.append((cond, val, forced))
        return val

    def fresh_real(self, stem):
        return z3.Real("%s!%d" % (stem, next(self.fresh)))

    def fresh_int(self, stem):
        return z3.Int("%s!%d" % (stem, next(self.fresh)))


def ctx():
    if Ctx.cur is None:
        raise RuntimeError("no active path context")
    return Ctx.cur


# ---------------------------------------------------------------------------------------------
# conversions


def is_sym(x):
    return isinstance(x, Sym)


def _frac(x):
    if isinstance(x, Fraction):
        return x
    if isinstance(x, (bool, np.bool_)):
        return Fraction(int(x))
    if isinstance(x, numbers.Integral):
        return Fraction(int(x))
    if isinstance(x, (float, np.floating)):
        x = float(x)
        if x != x or x in (math.inf, -math.inf):
            raise Unsupported("nan/inf constant in symbolic arithmetic")
        return Fraction(x)
    raise TypeError(type(x))


def zreal(x):
    """z3 Real term for a symbolic scalar or a Python/numpy number."""
    if isinstance(x, SNum):
        e = x.e
        return z3.ToReal(e) if z3.is_int(e) else e
    if isinstance(x, SSqrt):
        return x.value().e
    if isinstance(x, Sym) and hasattr(x, "piece_value"):
        return zreal(x.piece_value())
    if isinstance(x, SBool):
        return z3.If(x.e, z3.RealVal(1), z3.RealVal(0))
    if z3.is_expr(x):
        return z3.ToReal(x) if z3.is_int(x) else x
    if isinstance(x, np.ndarray) and x.ndim == 0:
        return zreal(x.item())
    f = _frac(x)
    return z3.RealVal(str(f))


def zterm(x):
    """z3 arithmetic term keeping Int sort where possible."""
    if isinstance(x, SNum):
        return x.e
    if isinstance(x, (bool, np.bool_)):
        return z3.IntVal(int(x))
    if isinstance(x, numbers.Integral):
        return z3.IntVal(int(x))
    return zreal(x)


def zbool(x):
    if isinstance(x, SBool):
        return x.e
    if isinstance(x, (bool, np.bool_)):
        return z3.BoolVal(bool(x))
    if z3.is_expr(x) and z3.is_bool(x):
        return x
    raise TypeError("not a boolean: %r" % (type(x),))


def _unify(a, b):
    if z3.is_int(a) and z3.is_real(b):
        a = z3.ToReal(a)
    elif z3.is_real(a) and z3.is_int(b):
        b = z3.ToReal(b)
    return a, b


class Sym:
    def __deepcopy__(self, memo):
        return self          # immutable

    def __copy__(self):
        return self


class SBool(Sym):
    def __init__(self, e):
        self.e = e

    def __bool__(self):
        return ctx().decide(self.e)

    def __and__(self, o):
        try:
            return SBool(z3.And(self.e, zbool(o)))
        except TypeError:
            return NotImplemented

    __rand__ = __and__

    def __or__(self, o):
        try:
            return SBool(z3.Or(self.e, zbool(o)))
        except TypeError:
            return NotImplemented

    __ror__ = __or__

    def __xor__(self, o):
        try:
            return SBool(z3.Xor(self.e, zbool(o)))
        except TypeError:
            return NotImplemented

    __rxor__ = __xor__

    def __invert__(self):
        return SBool(z3.Not(self.e))

    def __eq__(self, o):
        try:
            return SBool(self.e == zbool(o))
        except TypeError:
            return NotImplemented

    def __ne__(self, o):
        try:
            return SBool(self.e != zbool(o))
        except TypeError:
            return NotImplemented

    def __hash__(self):
        return hash(bool(self))

    def __repr__(self):
        return "SBool(...)"

    # arithmetic use of booleans (mask.sum(), 1*mask)
    def _num(self):
        return SNum(z3.If(self.e, z3.IntVal(1), z3.IntVal(0)))

    def __add__(self, o):
        return self._num() + o

    __radd__ = __add__

    def __mul__(self, o):
        return self._num() * o

    __rmul__ = __mul__

    def __int__(self):
        return 1 if bool(self) else 0

    def __index__(self):
        return int(self)


def _is_arr(o):
    return isinstance(o, (np.ndarray, list, tuple)) or type(o).__name__ in ("LArray", "Series", "DataFrame")


class SNum(Sym):
    """Symbolic number: z3 Real or Int term. `dom`: optional declared finite domain (python values)."""

    def __init__(self, e, dom=None, unit=None):
        self.e = e
        self.dom = dom
        self.unit = unit

    # -- arithmetic ---------------------------------------------------------------------
    def _bin(self, o, f, rev=False, real=False):
        if _is_arr(o) or isinstance(o, (SAngle, str)) or o is None:
            return NotImplemented
        if isinstance(o, SSqrt):
            o = o.value()
        try:
            oz = zterm(o)
        except TypeError:
            return NotImplemented
        a, b = self.e, oz
        if real:
            a = z3.ToReal(a) if z3.is_int(a) else a
            b = z3.ToReal(b) if z3.is_int(b) else b
        a, b = _unify(a, b)
        if rev:
            a, b = b, a
        return SNum(f(a, b))

    def __add__(self, o): return self._bin(o, lambda a, b: a + b)
    def __radd__(self, o): return self._bin(o, lambda a, b: a + b, True)
    def __sub__(self, o): return self._bin(o, lambda a, b: a - b)
    def __rsub__(self, o): return self._bin(o, lambda a, b: a - b, True)
    def __mul__(self, o): return self._bin(o, lambda a, b: a * b)
    def __rmul__(self, o): return self._bin(o, lambda a, b: a * b, True)
    def __truediv__(self, o): return self._bin(o, lambda a, b: a / b, False, True)
    def __rtruediv__(self, o): return self._bin(o, lambda a, b: a / b, True, True)

    def __floordiv__(self, o):
        return sx_floor(self / o) if not (z3.is_int(self.e) and isinstance(o, numbers.Integral)) else SNum(self.e / z3.IntVal(int(o))) if o > 0 else sx_floor(self / o)

    def __rfloordiv__(self, o):
        return sx_floor(o / self)

    def __mod__(self, o):
        q = self // o
        return self - q * o

    def __neg__(self): return SNum(-self.e)
    def __pos__(self): return self
    def __abs__(self): return SNum(z3.If(self.e >= 0, self.e, -self.e))

    def __pow__(self, o):
        if isinstance(o, (numbers.Integral, np.integer)) or (isinstance(o, (float, np.floating)) and float(o).is_integer()):
            n = int(o)
            if 0 <= n <= 6:
                r = z3.RealVal(1) if z3.is_real(self.e) else z3.IntVal(1)
                for _ in range(n):
                    r = r * self.e
                return SNum(r)
            if -4 <= n < 0:
                return 1 / (self ** (-n))
        if isinstance(o, (float, np.floating)) and float(o) == 0.5:
            return self.sqrt()
        return sx_pow(self, o)

    def __rpow__(self, o):
        return sx_pow(o, self)

    # -- comparisons -------------------------------------------------------------------
    def _cmp(self, o, f):
        if _is_arr(o) or isinstance(o, (SAngle, str)) or o is None:
            return NotImplemented
        if isinstance(o, SSqrt):
            return NotImplemented
        try:
            oz = zterm(o)
        except TypeError:
            return NotImplemented
        a, b = _unify(self.e, oz)
        return SBool(f(a, b))

    def __lt__(self, o): return self._cmp(o, lambda a, b: a < b)
    def __le__(self, o): return self._cmp(o, lambda a, b: a <= b)
    def __gt__(self, o): return self._cmp(o, lambda a, b: a > b)
    def __ge__(self, o): return self._cmp(o, lambda a, b: a >= b)
    def __eq__(self, o): return self._cmp(o, lambda a, b: a == b)
    def __ne__(self, o): return self._cmp(o, lambda a, b: a != b)

    def __bool__(self):
        return ctx().decide(self.e != 0)

    def __hash__(self):
        return hash(concretize(self))

    def __index__(self):
        v = concretize(self)
        if v != int(v):
            raise TypeError("non-integer index")
        return int(v)

    def __int__(self):
        # int(x) truncates; only supported through finite concretisation
        return int(concretize(self))

    def __float__(self):
        raise TypeError("float() on a symbolic scalar (unsupported conversion)")

    def __round__(self, nd=None):
        if nd is None or nd == 0:
            return sx_round_half_even(self)
        raise Unsupported("round(x, ndigits) on symbolic")

    def __repr__(self):
        return "SNum"

    __str__ = __repr__

    def __format__(self, spec):
        return "SNum"

    # numpy object-ufunc hooks
    def sqrt(self): return SSqrt(self.e)
    def conjugate(self): return self
    @property
    def real(self): return self
    @property
    def imag(self): return 0.0
    def floor(self): return sx_floor(self)
    def ceil(self): return sx_ceil(self)
    def rint(self): return sx_round_half_even(self)
    def exp(self): return sx_fun("exp", self)
    def arccos(self): return sx_fun("acos", self)
    def item(self): return self
    def is_integer(self): return bool(SBool(z3.IsInt(zreal(self))))

    def is_int_valued(self):
        """Solver-checked: the value is an integer on every model of the path condition."""
        e = self.e
        if z3.is_int(e):
            return True
        r, _, _ = solve.check(ctx().pc() + [z3.Not(z3.IsInt(e))], timeout=ctx().qtimeout)
        return r == "unsat"


class SInf(Sym):
    """+infinity of the extended reals, for the one place numpy produces it on purpose: 0.0 ** negative.
    Supports exactly: positive_constant * inf, inf + finite, finite / inf = 0."""

    def __mul__(self, o):
        if isinstance(o, (int, float, np.floating, np.integer)) and o > 0:
            return self
        raise Unsupported("inf * %r" % (o,))

    __rmul__ = __mul__

    def __add__(self, o):
        if isinstance(o, (int, float, np.floating, np.integer, SNum)):
            return self
        raise Unsupported("inf + %r" % (o,))

    __radd__ = __add__

    def __rtruediv__(self, o):
        return 0.0

    def __repr__(self):
        return "SInf"


def _is_zero_term(e):
    e = z3.simplify(e)
    return (z3.is_rational_value(e) and e.numerator_as_long() == 0) or (z3.is_int_value(e) and e.as_long() == 0)


class SSqrt(Sym):
    """sqrt(radicand) kept lazy: comparisons are squared; a value is materialised only on demand."""

    def __init__(self, rad):
        self.rad = z3.simplify(rad)       # Int- or Real-sorted radicand (kept in its own sort)
        self._val = None

    def value(self):
        if self._val is None:
            lin = _single_square(self.rad)
            if lin is not None:
                self._val = SNum(z3.If(lin >= 0, lin, -lin))
            else:
                c = ctx()
                cache = c.__dict__.setdefault("_sqrt_cache", {})
                hit = cache.get(self.rad.get_id())
                if hit is not None and hit[0].eq(self.rad):
                    self._val = hit[1]          # same radicand -> same root symbol
                else:
                    import hashlib
                    # the root symbol is named after its radicand: sqrt is a function (equal radicands, equal roots)
                    r = z3.Real("sqrt_" + hashlib.sha256(self.rad.sexpr().encode()).hexdigest()[:16])
                    radr = z3.ToReal(self.rad) if z3.is_int(self.rad) else self.rad
                    c.assume(z3.And(r >= 0, r * r == radr))
                    self._val = SNum(r)
                    cache[self.rad.get_id()] = (self.rad, self._val)
        return self._val

    def _cmp(self, o, name):
        lin = _single_square(self.rad)
        if isinstance(o, SSqrt):
            lin2 = _single_square(o.rad)
            if lin is not None and lin2 is not None:
                return getattr(self.value(), "__%s__" % name)(o.value())
            a, b = self.rad, o.rad
            return SBool({"lt": a < b, "le": a <= b, "gt": a > b, "ge": a >= b, "eq": a == b, "ne": a != b}[name])
        if _is_arr(o):
            return NotImplemented
        if lin is not None:
            return getattr(self.value(), "__%s__" % name)(o)
        oz = zterm(o)
        rad = self.rad
        if z3.is_int(rad) and z3.is_real(oz):
            rad = z3.ToReal(rad)
        elif z3.is_real(rad) and z3.is_int(oz):
            oz = z3.ToReal(oz)
        return SBool({
            "lt": z3.And(oz > 0, rad < oz * oz),
            "le": z3.And(oz >= 0, rad <= oz * oz),
            "gt": z3.Or(oz < 0, rad > oz * oz),
            "ge": z3.Or(oz <= 0, rad >= oz * oz),
            "eq": z3.And(oz >= 0, rad == oz * oz),
            "ne": z3.Not(z3.And(oz >= 0, rad == oz * oz)),
        }[name])

    def __lt__(self, o): return self._cmp(o, "lt")
    def __le__(self, o): return self._cmp(o, "le")
    def __gt__(self, o): return self._cmp(o, "gt")
    def __ge__(self, o): return self._cmp(o, "ge")
    def __eq__(self, o): return self._cmp(o, "eq")
    def __ne__(self, o): return self._cmp(o, "ne")
    def __hash__(self): return hash(self.value())
    def __bool__(self): return ctx().decide(self.rad != 0)

    def __pow__(self, o):
        if o == 2:
            return SNum(self.rad)
        if isinstance(o, (int, float, np.floating)) and o < 0 and _is_zero_term(self.rad):
            return SInf()            # numpy: 0.0 ** negative = inf
        return self.value() ** o

    def __bool__(self):
        return ctx().decide(self.rad != 0)

    def _arith(name):
        def f(self, o):
            if _is_arr(o):
                return NotImplemented
            return getattr(self.value(), name)(o)
        return f

    for _n in ("add", "radd", "sub", "rsub", "mul", "rmul", "truediv", "rtruediv"):
        locals()["__%s__" % _n] = _arith("__%s__" % _n)
    del _n, _arith

    def __neg__(self): return -self.value()
    def __abs__(self): return self
    def __float__(self): raise TypeError("float() on a symbolic scalar")
    def __repr__(self): return "SSqrt"
    def sqrt(self): return self.value().sqrt()
    def conjugate(self): return self
    @property
    def real(self): return self
    @property
    def e(self): return self.value().e


def _single_square(rad):
    """If rad is syntactically t*t (after simplify) return t, else None."""
    r = rad
    if z3.is_app(r) and r.decl().kind() == z3.Z3_OP_MUL:
        ch = r.children()
        if len(ch) == 2 and ch[0].eq(ch[1]):
            return ch[0]
    if z3.is_app(r) and r.decl().kind() == z3.Z3_OP_POWER:
        ch = r.children()
        if z3.is_rational_value(ch[1]) and ch[1].numerator_as_long() == 2 and ch[1].denominator_as_long() == 1:
            return ch[0]
    return None


# ---------------------------------------------------------------------------------------------
# angles on the unit circle


class SAngle(Sym):
    """An angle represented by (cos, sin) with cos^2+sin^2=1.  `unit` ('deg'/'rad') only matters when
    a plain number is added.  `prov` records the Euler decomposition the angle came from."""

    def __init__(self, c, s, unit="deg", prov=None, v=None):
        self.c, self.s, self.unit, self.prov = c, s, unit, prov
        self._v = v      # optional numeric value in DEGREES (z3 Real term) for code that does plain arithmetic on angles
        self._vax = []   # axioms linking the value to the circle position: assumed lazily, on first numeric use

    @property
    def v(self):
        if self._vax:
            ax, self._vax[:] = list(self._vax), []
            for a in ax:
                ctx().assume(a)
        return self._v

    @v.setter
    def v(self, val):
        self._v = val

    def _carry(self, other_v, *sources):
        """propagate value and pending axioms without triggering them"""
        self._v = other_v
        for s_ in sources:
            if isinstance(s_, SAngle):
                self._vax = self._vax + [a for a in s_._vax if not any(a is b for b in self._vax)]
        return self

    @staticmethod
    def fresh(name, unit="deg"):
        c, s = z3.Real("c_" + name), z3.Real("s_" + name)
        ctx().assume(c * c + s * s == 1)
        return SAngle(c, s, unit)

    @staticmethod
    def const(deg, unit="deg"):
        c, s = const_cos_sin(deg)
        return SAngle(c, s, unit, v=z3.RealVal(str(Fraction(float(deg)))))

    def __neg__(self):
        return SAngle(self.c, -self.s, self.unit)._carry((-self._v if self._v is not None else None), self)

    def __abs__(self):
        if self.v is None:
            raise Unsupported("abs() of an angle without numeric value")
        return SNum(z3.If(self.v >= 0, self.v, -self.v))

    def _numcmp(self, o, f):
        if self.v is None or isinstance(o, SAngle) and o.v is None:
            raise Unsupported("numeric comparison of an angle without numeric value")
        ov = o.v if isinstance(o, SAngle) else zreal(o if self.unit == "deg" else math.degrees(float(o)))
        return SBool(f(self.v, ov))

    def __lt__(self, o): return self._numcmp(o, lambda a, b: a < b)
    def __le__(self, o): return self._numcmp(o, lambda a, b: a <= b)
    def __gt__(self, o): return self._numcmp(o, lambda a, b: a > b)
    def __ge__(self, o): return self._numcmp(o, lambda a, b: a >= b)

    def __pos__(self):
        return self

    def _other(self, o):
        if isinstance(o, SAngle):
            return o
        if isinstance(o, (numbers.Real, np.floating, np.integer)):
            d = float(o) if self.unit == "deg" else math.degrees(float(o))
            return SAngle.const(d, self.unit)
        return None

    def __add__(self, o):
        if _is_arr(o):
            return NotImplemented
        o2 = self._other(o)
        if o2 is None:
            return NotImplemented
        v = (self._v + o2._v) if (self._v is not None and o2._v is not None) else None
        return SAngle(z3.simplify(self.c * o2.c - self.s * o2.s), z3.simplify(self.s * o2.c + self.c * o2.s), self.unit)._carry(v, self, o2)

    __radd__ = __add__

    def __sub__(self, o):
        if _is_arr(o):
            return NotImplemented
        o2 = self._other(o)
        if o2 is None:
            return NotImplemented
        return self + (-o2)

    def __rsub__(self, o):
        return (-self) + o

    def __mul__(self, o):
        if isinstance(o, (numbers.Real, np.floating, np.integer)):
            if float(o) == 1.0:
                return self
            if float(o) == -1.0:
                return -self
            if abs(float(o) - math.pi / 180) < 1e-15:
                return SAngle(self.c, self.s, "rad", self.prov)._carry(self._v, self)
            if abs(float(o) - 180 / math.pi) < 1e-12:
                return SAngle(self.c, self.s, "deg", self.prov)._carry(self._v, self)
        if _is_arr(o):
            return NotImplemented
        raise Unsupported("angle * %r" % (o,))

    __rmul__ = __mul__

    def __truediv__(self, o):
        if isinstance(o, (numbers.Real, np.floating)) and abs(float(o) - 180 / math.pi) < 1e-12:
            return SAngle(self.c, self.s, "rad")
        raise Unsupported("angle / %r" % (o,))

    def cos(self): return SNum(self.c)
    def sin(self): return SNum(self.s)
    def deg2rad(self): return SAngle(self.c, self.s, "rad", self.prov)._carry(self._v, self)
    radians = deg2rad
    def rad2deg(self): return SAngle(self.c, self.s, "deg", self.prov)._carry(self._v, self)
    degrees = rad2deg
    def conjugate(self): return self
    @property
    def real(self): return self

    def same(self, o):
        o = self._other(o)
        return SBool(z3.And(self.c == o.c, self.s == o.s))

    def __eq__(self, o):
        o2 = self._other(o) if not _is_arr(o) else None
        if o2 is None:
            return NotImplemented
        return self.same(o2)

    def __ne__(self, o):
        r = self.__eq__(o)
        return r if r is NotImplemented else ~r

    def __hash__(self):
        raise Unsupported("hash of a symbolic angle")

    def __float__(self):
        raise TypeError("float() on a symbolic angle")

    def __repr__(self):
        return "SAngle"




def snap_deg(deg):
    """Exact rational degree value for a float produced by the code (snapped to denominators <= 720)."""
    f = Fraction(deg)
    g = f.limit_denominator(720)
    if abs(float(g) - float(deg)) <= 1e-9 * max(1.0, abs(float(deg))):
        return g
    return f


def const_cos_sin(deg):
    """(cos, sin) z3 terms for a constant angle.  The angle is snapped to an exact rational number of
    degrees, reduced by the symmetries of the circle to a base angle r in [0,45], and cos r / sin r are
    *named* constants (exact for 0, 30, 45) on the unit circle with a certified rational enclosure.  Two
    constant angles therefore share symbols exactly when they are related by those symmetries."""
    q = snap_deg(deg) % 360
    k, r = divmod(q, 90)
    k = int(k)
    swap = False
    if r > 45:
        r = 90 - r
        swap = True
    c, s = _base_cos_sin(r)
    if swap:
        c, s = s, c
    # rotate by 90*k
    for _ in range(k):
        c, s = -s, c
    return c, s


def _base_cos_sin(r):
    if r == 0:
        return z3.RealVal(1), z3.RealVal(0)
    key = (r.numerator, r.denominator)
    name = "k%d_%d" % key
    c, s = z3.Real("c_" + name), z3.Real("s_" + name)
    cx = ctx()
    if key not in cx.__dict__.setdefault("_const_done", set()):
        cx._const_done.add(key)
        cx.assume(c * c + s * s == 1)
        if r == 45:
            cx.assume(c == s)
        if r == 30:
            cx.assume(s == z3.RealVal("1/2"))
        # enclosure: libm cos/sin are accurate to ~1e-16; 1e-12 is a safe certified margin
        ang = math.radians(float(r))
        eps = Fraction(1, 10 ** 12)
        for var, val in ((c, math.cos(ang)), (s, math.sin(ang))):
            fv = Fraction(val)
            cx.assume(z3.And(var >= z3.RealVal(str(fv - eps)), var <= z3.RealVal(str(fv + eps))))
    return c, s


# ---------------------------------------------------------------------------------------------
# helpers used by shims


def sx_floor(x):
    if not is_sym(x):
        return math.floor(x)
    e = zterm(x)
    if z3.is_int(e):
        return SNum(e)
    c = ctx()
    # floor is a function: the same argument term gets the same integer symbol (content keys of opaque operators built
    # from such symbols then coincide for equal content)
    es = z3.simplify(e)
    memo = c.__dict__.setdefault("_floor_memo", {})
    hit = memo.get(es.get_id())
    if hit is not None and hit[0].eq(es):
        return SNum(hit[1])
    k = c.fresh_int("floor")
    c.assume(z3.And(z3.ToReal(k) <= e, e < z3.ToReal(k) + 1))
    memo[es.get_id()] = (es, k)
    return SNum(k)


def sx_ceil(x):
    if not is_sym(x):
        return math.ceil(x)
    return -sx_floor(-x)


def sx_round_half_up(x):
    """decimal ROUND_HALF_UP: ties away from zero."""
    e = zreal(x)
    pos = sx_floor(SNum(e + z3.RealVal("1/2")))
    neg = sx_floor(SNum(-e + z3.RealVal("1/2")))
    return SNum(z3.If(e >= 0, pos.e, -neg.e))


def sx_round_half_even(x):
    e = zreal(x)
    fl = sx_floor(SNum(e)).e
    frac = e - z3.ToReal(fl)
    half = z3.RealVal("1/2")
    return SNum(z3.If(frac < half, fl, z3.If(frac > half, fl + 1, z3.If(fl % 2 == 0, fl, fl + 1))))


_ufuns = {}


def ufun(name, arity=1):
    k = (name, arity)
    if k not in _ufuns:
        _ufuns[k] = z3.Function(name, *([z3.RealSort()] * (arity + 1)))
    return _ufuns[k]


def sx_fun(name, *args):
    f = ufun(name, len(args))
    zs = [zreal(a) for a in args]
    t = f(*zs)
    if name == "exp":
        c = ctx()
        done = c.__dict__.setdefault("_exp_done", {})
        if t.get_id() not in done:
            done[t.get_id()] = t
            c.assume(z3.And(t > 0, z3.Implies(zs[0] == 0, t == 1), z3.Implies(zs[0] <= 0, t <= 1), z3.Implies(zs[0] >= 0, t >= 1)))
    return SNum(t)


def sx_pow(a, b):
    return sx_fun("pow", a, b)


def concretize(x):
    """Finite-domain concretisation by path forks, candidates in a deterministic order."""
    c = ctx()
    if not isinstance(x, SNum):
        raise Unsupported("concretize %r" % type(x))
    e = z3.simplify(x.e)
    if z3.is_int_value(e):
        return e.as_long()
    if z3.is_rational_value(e):
        f = Fraction(e.numerator_as_long(), e.denominator_as_long())
        return int(f) if f.denominator == 1 else float(f)
    fv = solve.free_vars([e])
    doms = []
    if z3.is_int(e) and any(n not in c.domains for n in fv):
        # integer-valued term without declared domain: candidates from a fixed window, ascending
        lo, hi = getattr(c, "int_window", (-8, 72))
        for k in range(lo, hi + 1):
            if c.decide(e == k):
                return k
        raise Unsupported("integer value outside the concretisation window %s" % ((lo, hi),))
    for n in sorted(fv):
        if n not in c.domains:
            raise Unsupported("concretisation of a value without declared finite domain (%s)" % n)
        doms.append((fv[n], c.domains[n]))
    total = 1
    for _, d in doms:
        total *= len(d)
    if total > 256:
        raise Unsupported("finite domain too large")
    cands = []
    for combo in itertools.product(*[d for _, d in doms]):
        sub = [(v, z3.RealVal(str(_frac(val))) if z3.is_real(v) else z3.IntVal(int(val))) for (v, _), val in zip(doms, combo)]
        val = z3.simplify(z3.substitute(e, *sub))
        if z3.is_int_value(val):
            f = Fraction(val.as_long())
        elif z3.is_rational_value(val):
            f = Fraction(val.numerator_as_long(), val.denominator_as_long())
        else:
            raise Unsupported("non-constant after substitution")
        if f not in cands:
            cands.append(f)
    for f in cands:
        zc = z3.RealVal(str(f)) if z3.is_real(e) else z3.IntVal(int(f))
        if c.decide(e == zc):
            if z3.is_int(e):
                return int(f)
            return float(f)
    raise PathAbort("no candidate value feasible")
