"""C05 — pose bookkeeping: position x+shift and orientation transform rigidly."""
import numpy as np
import pandas as pd
from .common import *  # noqa

PROPERTY = "C05"
EXPLANATION = ("Real Motl.update_coordinates/scale_coordinates/shift_positions/apply_rotation/flip_handedness executed on a real "
               "pandas frame whose cells are symbolic reals / unit-circle angles; scipy Rotation replaced by an exact polynomial "
               "rotation algebra; oracle = independent matrix formulas in the harness.")
ASSUMPTIONS = ["positions, shifts in [-1000,1000]; every orientation (angles as points of the unit circle)",
               "scale factor > 0; tomogram dimension in [1, 10000]",
               "a second, concrete particle in another tomogram accompanies the symbolic one to expose cross-row effects"]
OUTSIDE = ["histories of length 3..6 are covered only through the one-step obligations from an arbitrary state plus the named two-step compositions",
           "float rounding (A0)"]
BOUNDS = {"quick": {"particles": "1 symbolic + 1 concrete", "compositions": "2 steps"},
          "thorough": {"particles": "2 symbolic + 1 concrete", "compositions": "2 steps"}}
EXPECTED_EXCEPTIONS = ()


def _second(tomo=2.0):
    return {"x": 10.0, "y": 20.5, "z": 30.0, "shift_x": 0.25, "shift_y": -0.75, "shift_z": 1.5, "phi": 30.0, "theta": 45.0, "psi": -60.0,
            "tomo_id": tomo, "subtomo_id": 2.0, "score": 0.5, "class": 1.0, "object_id": 3.0, "geom1": 4.0, "geom3": 5.0}


def _sym_particle(env, tag="a", tomo=1.0, sub=1.0):
    p = particle(env, tag)
    p.update({"tomo_id": tomo, "subtomo_id": sub, "score": env.real("score_" + tag, -10, 10), "class": 2.0, "object_id": 7.0,
              "geom1": env.real("g1_" + tag, -10, 10)})
    return p


def _pos(r):
    return [r["x"] + r["shift_x"], r["y"] + r["shift_y"], r["z"] + r["shift_z"]]


def _R(env, r):
    return R_zxz(env, r["phi"], r["theta"], r["psi"])


INDEXES = {"default": None, "gaps": [5, 2, 9, 7], "reversed": [3, 2, 1, 0]}


def _setup(env, n_sym=1, index="default"):
    """`index`: row labels of the frame.  Lists with gaps / unsorted labels are reachable states
    (remove_feature, adapt_to_trimming, get_motl_subset(reset_index=False) do not reset the index)."""
    cm = env.module("cryomotl")
    rows = [_sym_particle(env, "p%d" % i, tomo=1.0, sub=float(i * 2 + 1)) for i in range(n_sym)] + [_second()]
    m = mk_motl(env, cm, rows)
    if INDEXES[index] is not None:
        m.df.index = INDEXES[index][: len(rows)]
    before = [row(m.df, i) for i in range(len(rows))]
    return cm, m, before


def h_update_coordinates(env, n_sym=1, index="default"):
    cm, m, before = _setup(env, n_sym, index)
    m.update_coordinates()
    env.check("row_count", env.true() if m.df.shape[0] == len(before) else env.not_(env.true()))
    for i, b in enumerate(before):
        a = row(m.df, i)
        env.check("position_invariant_%d" % i, vec_eq(env, _pos(a), _pos(b)))
        for c in ("x", "y", "z"):
            env.check("integer_%s_%d" % (c, i), env.is_int(a[c]))
            env.check("half_bound_%s_%d" % (c, i), env.and_(env.le(a["shift_" + c], 0.5), env.ge(a["shift_" + c], -0.5)))
        env.check("others_unchanged_%d" % i, others_unchanged(env, b, a, {"x", "y", "z", "shift_x", "shift_y", "shift_z"}))


def h_scale_coordinates(env, n_sym=1, index="default"):
    cm, m, before = _setup(env, n_sym, index)
    f = env.real("factor", 0.001, 1000)
    m.scale_coordinates(f)
    for i, b in enumerate(before):
        a = row(m.df, i)
        env.check("scaled_position_%d" % i, vec_eq(env, _pos(a), [v * f for v in _pos(b)]))
        env.check("others_unchanged_%d" % i, others_unchanged(env, b, a, {"x", "y", "z", "shift_x", "shift_y", "shift_z"}))


def h_shift_positions(env, n_sym=1, inplace=True, twice=False, index="default"):
    cm, m, before = _setup(env, n_sym, index)
    s = [env.real("s%d" % k, -100, 100) for k in range(3)]
    stot = s
    if env.mode == "sym":
        sv = objcol(s)
    else:
        sv = np.array(s)
    if inplace:
        m.shift_positions(sv)
        out = m
    else:
        out = m.shift_positions(sv, inplace=False)
    if twice:
        s2 = [env.real("t%d" % k, -100, 100) for k in range(3)]
        out.shift_positions(objcol(s2) if env.mode == "sym" else np.array(s2))
        stot = [a + b for a, b in zip(s, s2)]
    for i, b in enumerate(before):
        a = row(out.df, i)
        Rs = mat_vec(_R(env, b), stot)
        env.check("moved_by_R_s_%d" % i, vec_eq(env, _pos(a), [p + d for p, d in zip(_pos(b), Rs)]))
        env.check("others_unchanged_%d" % i, others_unchanged(env, b, a, {"shift_x", "shift_y", "shift_z"}))
    if not inplace:
        for i, b in enumerate(before):
            env.check("original_untouched_%d" % i, others_unchanged(env, b, row(m.df, i), set()))


def h_apply_rotation(env, n_sym=1, twice=False, index="default"):
    cm, m, before = _setup(env, n_sym, index)
    q = [env.angle("q%d" % k) for k in range(3)]
    Q = cm.rot.from_euler("zxz", objcol(q) if env.mode == "sym" else np.array(q), degrees=True)
    Qm = R_zxz(env, *[q[0], q[1], q[2]])
    m.apply_rotation(Q)
    if twice:
        q2 = [env.angle("r%d" % k) for k in range(3)]
        Q2 = cm.rot.from_euler("zxz", objcol(q2) if env.mode == "sym" else np.array(q2), degrees=True)
        m.apply_rotation(Q2)
        Qm = mat_mul(Qm, R_zxz(env, *q2))
    for i, b in enumerate(before):
        a = row(m.df, i)
        env.check("orientation_is_R_Q_%d" % i, mat_eq(env, _R(env, a), mat_mul(_R(env, b), Qm)))
        env.check("others_unchanged_%d" % i, others_unchanged(env, b, a, {"phi", "theta", "psi"}))


def _dims(env, kind, d1, d2, order="sorted"):
    if kind == "1x3":
        vals = [[100.0, 120.0, d1]]
        cols = None
    else:
        vals = [[1.0, 100.0, 120.0, d1], [2.0, 90.0, 80.0, d2]]
        if order == "unsorted":
            vals = [[5.0, 50.0, 60.0, 70.0], vals[1], [0.0, 11.0, 12.0, 13.0], vals[0]]
    if kind == "1x3_list":
        return [100.0, 120.0, d1]
    if env.mode == "sym":
        a = np.empty((len(vals), len(vals[0])), dtype=object)
        for i, r in enumerate(vals):
            for j, v in enumerate(r):
                a[i, j] = v
        return a if kind != "Nx4_df" else pd.DataFrame(a)
    a = np.array(vals, dtype=float)
    return a if kind != "Nx4_df" else pd.DataFrame(a)


def h_flip_handedness(env, kind="Nx4", twice=False, single_tomo=False, order="sorted", index="default", reuse=False):
    cm = env.module("cryomotl")
    rows = [_sym_particle(env, "p0", tomo=1.0, sub=1.0), _second(1.0 if single_tomo else 2.0)]
    m = mk_motl(env, cm, rows)
    if INDEXES[index] is not None:
        m.df.index = INDEXES[index][:2]
    before = [row(m.df, i) for i in range(2)]
    d1 = env.real("dimz1", 1, 10000)
    d2 = env.real("dimz2", 1, 10000)
    dims = _dims(env, kind, d1, d2, order)
    m.flip_handedness(dims)
    if reuse:
        # the caller's dimension table is an input, not scratch space: it must come back unchanged ...
        fresh = _dims(env, kind, d1, d2, order)
        fa, da = np.asarray(fresh, dtype=object).ravel(), np.asarray(dims, dtype=object).ravel()
        env.check("callers_dimension_table_unchanged", env.and_(*[env.eq(u, v) for u, v in zip(da, fa)]) if len(da) == len(fa) else env.not_(env.true()))
    if twice:
        # ... so that the same object can be used for the second flip
        m.flip_handedness(dims if reuse else _dims(env, kind, d1, d2, order))
    dz = [d1, d1 if (kind.startswith("1x3")) else d2]
    S = [[1.0, 0.0, 0.0], [0.0, 1.0, 0.0], [0.0, 0.0, -1.0]]
    for i, b in enumerate(before):
        a = row(m.df, i)
        pb, pa = _pos(b), _pos(a)
        if twice:
            env.check("twice_restores_position_%d" % i, vec_eq(env, pa, pb))
            env.check("twice_restores_orientation_%d" % i, mat_eq(env, _R(env, a), _R(env, b)))
            env.check("twice_restores_fields_%d" % i, others_unchanged(env, b, a, {"phi", "theta", "psi"}))
        else:
            env.check("mirror_position_%d" % i, vec_eq(env, pa, [pb[0], pb[1], dz[i] + 1 - pb[2]]))
            env.check("mirror_orientation_%d" % i, mat_eq(env, _R(env, a), mat_mul(S, mat_mul(_R(env, b), S))))
            env.check("others_unchanged_%d" % i, others_unchanged(env, b, a, {"theta", "z", "shift_z"}))


def h_get_coordinates(env):
    cm, m, before = _setup(env, 1)
    c = m.get_coordinates()
    for i, b in enumerate(before):
        env.check("coordinates_are_x_plus_shift_%d" % i, vec_eq(env, list(c[i]), _pos(b)))
    c1 = m.get_coordinates(2.0)
    env.check("per_tomogram_selection", vec_eq(env, list(c1[0]), _pos(before[-1])) if len(c1) == 1 else env.not_(env.true()))
    rots = m.get_rotations()
    M = rots.as_matrix()
    for i, b in enumerate(before):
        env.check("rotation_matrix_%d" % i, mat_eq(env, [[M[i][r][c] for c in range(3)] for r in range(3)], _R(env, b)))


def jobs(tier, seed):
    n = 1
    j = [
        ("h_get_coordinates", {}),
        ("h_update_coordinates", {"n_sym": n}),
        ("h_scale_coordinates", {"n_sym": n}),
        ("h_shift_positions", {"n_sym": n, "inplace": True}),
        ("h_shift_positions", {"n_sym": n, "inplace": False}),
        ("h_shift_positions", {"n_sym": n, "inplace": True, "twice": True}),
        ("h_apply_rotation", {"n_sym": n}),
        ("h_apply_rotation", {"n_sym": n, "twice": True}),
        ("h_flip_handedness", {"kind": "Nx4"}),
        ("h_flip_handedness", {"kind": "Nx4_df"}),
        ("h_flip_handedness", {"kind": "1x3"}),
        ("h_flip_handedness", {"kind": "1x3_list", "single_tomo": True}),
        ("h_flip_handedness", {"kind": "Nx4", "twice": True}),
        ("h_flip_handedness", {"kind": "Nx4_df", "twice": True, "reuse": True}),
        ("h_flip_handedness", {"kind": "Nx4", "twice": True, "reuse": True}),
        ("h_flip_handedness", {"kind": "Nx4", "order": "unsorted", "index": "gaps"}),
        ("h_update_coordinates", {"n_sym": n, "index": "gaps"}),
        ("h_scale_coordinates", {"n_sym": n, "index": "reversed"}),
        ("h_shift_positions", {"n_sym": n, "inplace": True, "index": "gaps"}),
        ("h_apply_rotation", {"n_sym": n, "index": "gaps"}),
        ("h_apply_rotation", {"n_sym": n, "twice": True, "index": "reversed"}),
    ]
    if tier == "thorough":
        j += [("h_update_coordinates", {"n_sym": 2}), ("h_scale_coordinates", {"n_sym": 2}),
              ("h_shift_positions", {"n_sym": 2, "inplace": True}), ("h_apply_rotation", {"n_sym": 2}),
              ("h_flip_handedness", {"kind": "1x3", "twice": True})]
    return j
