"""C05 — pose bookkeeping: position x+shift and orientation transform rigidly."""
import numpy as np
import pandas as pd
from .common import *  # noqa

PROPERTY = "C05"
EXPLANATION = ("Real Motl.update_coordinates/scale_coordinates/shift_positions/apply_rotation/flip_handedness executed on a real "
               "pandas frame whose cells are symbolic reals / unit-circle angles; scipy Rotation replaced by an exact polynomial "
               "rotation algebra; oracle = independent matrix formulas in the harness.")
ASSUMPTIONS = ["positions, shifts in [-1000,1000]; every orientation (angles as points of the unit circle)",
               "scale factor > 0; tomogram dimension in [1, 10000]",
               "a second, concrete particle in another tomogram accompanies the symbolic one to expose cross-row effects"]
OUTSIDE = ["histories longer than 3 (quick) / 4 (thorough; every sequence over update/scale/shift/rotate/flip) are covered only through the one-step obligations from an arbitrary state",
           "float rounding (A0)"]
BOUNDS = {"quick": {"particles": "1 symbolic + 1 concrete", "compositions": "2 steps"},
          "thorough": {"particles": "2 symbolic + 1 concrete", "compositions": "2 steps"}}
EXPECTED_EXCEPTIONS = ()
OPTS = {"max_paths": 1200}
OPTS_THOROUGH = {"max_paths": 6000, "budget_s": 1200}


def _second(tomo=2.0):
    return {"x": 10.0, "y": 20.5, "z": 30.0, "shift_x": 0.25, "shift_y": -0.75, "shift_z": 1.5, "phi": 30.0, "theta": 45.0, "psi": -60.0,
            "tomo_id": tomo, "subtomo_id": 2.0, "score": 0.5, "class": 1.0, "object_id": 3.0, "geom1": 4.0, "geom3": 5.0}


def _sym_particle(env, tag="a", tomo=1.0, sub=1.0):
    p = particle(env, tag)
    p.update({"tomo_id": tomo, "subtomo_id": sub, "score": env.real("score_" + tag, -10, 10), "class": 2.0, "object_id": 7.0,
              "geom1": env.real("g1_" + tag, -10, 10)})
    return p


def _pos(r):
    return [r["x"] + r["shift_x"], r["y"] + r["shift_y"], r["z"] + r["shift_z"]]


def _R(env, r):
    return R_zxz(env, r["phi"], r["theta"], r["psi"])


INDEXES = {"default": None, "gaps": [5, 2, 9, 7], "reversed": [3, 2, 1, 0]}


def _setup(env, n_sym=1, index="default"):
    """`index`: row labels of the frame.  Lists with gaps / unsorted labels are reachable states
    (remove_feature, adapt_to_trimming, get_motl_subset(reset_index=False) do not reset the index)."""
    cm = env.module("cryomotl")
    rows = [_sym_particle(env, "p%d" % i, tomo=1.0, sub=float(i * 2 + 1)) for i in range(n_sym)] + [_second()]
    m = mk_motl(env, cm, rows)
    if INDEXES[index] is not None:
        m.df.index = INDEXES[index][: len(rows)]
    before = [row(m.df, i) for i in range(len(rows))]
    return cm, m, before


def h_update_coordinates(env, n_sym=1, index="default"):
    cm, m, before = _setup(env, n_sym, index)
    m.update_coordinates()
    env.check("row_count", env.true() if m.df.shape[0] == len(before) else env.not_(env.true()))
    for i, b in enumerate(before):
        a = row(m.df, i)
        env.check("position_invariant_%d" % i, vec_eq(env, _pos(a), _pos(b)))
        for c in ("x", "y", "z"):
            env.check("integer_%s_%d" % (c, i), env.is_int(a[c]))
            env.check("half_bound_%s_%d" % (c, i), env.and_(env.le(a["shift_" + c], 0.5), env.ge(a["shift_" + c], -0.5)))
        env.check("others_unchanged_%d" % i, others_unchanged(env, b, a, {"x", "y", "z", "shift_x", "shift_y", "shift_z"}))


def h_scale_coordinates(env, n_sym=1, index="default"):
    cm, m, before = _setup(env, n_sym, index)
    f = env.real("factor", 0.001, 1000)
    m.scale_coordinates(f)
    for i, b in enumerate(before):
        a = row(m.df, i)
        env.check("scaled_position_%d" % i, vec_eq(env, _pos(a), [v * f for v in _pos(b)]))
        env.check("others_unchanged_%d" % i, others_unchanged(env, b, a, {"x", "y", "z", "shift_x", "shift_y", "shift_z"}))


def h_shift_positions(env, n_sym=1, inplace=True, twice=False, index="default"):
    cm, m, before = _setup(env, n_sym, index)
    s = [env.real("s%d" % k, -100, 100) for k in range(3)]
    stot = s
    if env.mode == "sym":
        sv = objcol(s)
    else:
        sv = np.array(s)
    if inplace:
        m.shift_positions(sv)
        out = m
    else:
        out = m.shift_positions(sv, inplace=False)
    if twice:
        s2 = [env.real("t%d" % k, -100, 100) for k in range(3)]
        out.shift_positions(objcol(s2) if env.mode == "sym" else np.array(s2))
        stot = [a + b for a, b in zip(s, s2)]
    for i, b in enumerate(before):
        a = row(out.df, i)
        Rs = mat_vec(_R(env, b), stot)
        env.check("moved_by_R_s_%d" % i, vec_eq(env, _pos(a), [p + d for p, d in zip(_pos(b), Rs)]))
        env.check("others_unchanged_%d" % i, others_unchanged(env, b, a, {"shift_x", "shift_y", "shift_z"}))
    if not inplace:
        for i, b in enumerate(before):
            env.check("original_untouched_%d" % i, others_unchanged(env, b, row(m.df, i), set()))


def h_apply_rotation(env, n_sym=1, twice=False, index="default"):
    cm, m, before = _setup(env, n_sym, index)
    q = [env.angle("q%d" % k) for k in range(3)]
    Q = cm.rot.from_euler("zxz", objcol(q) if env.mode == "sym" else np.array(q), degrees=True)
    Qm = R_zxz(env, *[q[0], q[1], q[2]])
    m.apply_rotation(Q)
    if twice:
        q2 = [env.angle("r%d" % k) for k in range(3)]
        Q2 = cm.rot.from_euler("zxz", objcol(q2) if env.mode == "sym" else np.array(q2), degrees=True)
        m.apply_rotation(Q2)
        Qm = mat_mul(Qm, R_zxz(env, *q2))
    for i, b in enumerate(before):
        a = row(m.df, i)
        env.check("orientation_is_R_Q_%d" % i, mat_eq(env, _R(env, a), mat_mul(_R(env, b), Qm)))
        env.check("others_unchanged_%d" % i, others_unchanged(env, b, a, {"phi", "theta", "psi"}))


def _dims(env, kind, d1, d2, order="sorted"):
    if kind == "1x3":
        vals = [[100.0, 120.0, d1]]
        cols = None
    else:
        vals = [[1.0, 100.0, 120.0, d1], [2.0, 90.0, 80.0, d2]]
        if order == "unsorted":
            vals = [[5.0, 50.0, 60.0, 70.0], vals[1], [0.0, 11.0, 12.0, 13.0], vals[0]]
    if kind == "1x3_list":
        return [100.0, 120.0, d1]
    if env.mode == "sym":
        a = np.empty((len(vals), len(vals[0])), dtype=object)
        for i, r in enumerate(vals):
            for j, v in enumerate(r):
                a[i, j] = v
        return a if kind != "Nx4_df" else pd.DataFrame(a)
    a = np.array(vals, dtype=float)
    return a if kind != "Nx4_df" else pd.DataFrame(a)


def h_flip_handedness(env, kind="Nx4", twice=False, single_tomo=False, order="sorted", index="default", reuse=False):
    cm = env.module("cryomotl")
    rows = [_sym_particle(env, "p0", tomo=1.0, sub=1.0), _second(1.0 if single_tomo else 2.0)]
    m = mk_motl(env, cm, rows)
    if INDEXES[index] is not None:
        m.df.index = INDEXES[index][:2]
    before = [row(m.df, i) for i in range(2)]
    d1 = env.real("dimz1", 1, 10000)
    d2 = env.real("dimz2", 1, 10000)
    dims = _dims(env, kind, d1, d2, order)
    m.flip_handedness(dims)
    if reuse:
        # the caller's dimension table is an input, not scratch space: it must come back unchanged ...
        fresh = _dims(env, kind, d1, d2, order)
        fa, da = np.asarray(fresh, dtype=object).ravel(), np.asarray(dims, dtype=object).ravel()
        env.check("callers_dimension_table_unchanged", env.and_(*[env.eq(u, v) for u, v in zip(da, fa)]) if len(da) == len(fa) else env.not_(env.true()))
    if twice:
        # ... so that the same object can be used for the second flip
        m.flip_handedness(dims if reuse else _dims(env, kind, d1, d2, order))
    dz = [d1, d1 if (kind.startswith("1x3")) else d2]
    S = [[1.0, 0.0, 0.0], [0.0, 1.0, 0.0], [0.0, 0.0, -1.0]]
    for i, b in enumerate(before):
        a = row(m.df, i)
        pb, pa = _pos(b), _pos(a)
        if twice:
            env.check("twice_restores_position_%d" % i, vec_eq(env, pa, pb))
            env.check("twice_restores_orientation_%d" % i, mat_eq(env, _R(env, a), _R(env, b)))
            env.check("twice_restores_fields_%d" % i, others_unchanged(env, b, a, {"phi", "theta", "psi"}))
        else:
            env.check("mirror_position_%d" % i, vec_eq(env, pa, [pb[0], pb[1], dz[i] + 1 - pb[2]]))
            env.check("mirror_orientation_%d" % i, mat_eq(env, _R(env, a), mat_mul(S, mat_mul(_R(env, b), S))))
            env.check("others_unchanged_%d" % i, others_unchanged(env, b, a, {"theta", "z", "shift_z"}))


HIST_OPS = ["update", "scale", "shift", "rotate", "flip"]


def _R_state(env, cm, r):
    """Orientation matrix of a row of the CURRENT table inside a history.  Its angles were produced by as_euler from a known
    matrix in an earlier step; by the contract of as_euler (from_euler(as_euler(M)) = M) that matrix is the row's orientation,
    and the rotation algebra hands it back.  (The independent zxz formula R_zxz is used for every angle triple that is an
    input; the one-step jobs decide the same obligations from arbitrary angle triples.)"""
    if env.mode != "sym":
        return _R(env, r)
    M = cm.rot.from_euler("zxz", objcol([r["phi"], r["theta"], r["psi"]]), degrees=True).as_matrix()
    return [[M[i, j] for j in range(3)] for i in range(3)]


def h_history(env, length=3, index="default"):
    """Histories: `length` operations chosen by solver forks (every sequence over HIST_OPS is a family of paths); each step
    is checked against the state the previous steps REALLY left in the table (so rounding done by update_coordinates,
    Euler angles re-derived by apply_rotation / flip_handedness, column dtypes and index labels are whatever the code produced)."""
    cm, m, _ = _setup(env, 1, index)
    S = [[1.0, 0.0, 0.0], [0.0, 1.0, 0.0], [0.0, 0.0, -1.0]]
    for step in range(length):
        k = env.choice("op%d" % step, list(range(len(HIST_OPS))))
        if env.mode == "sym":
            from sx import core
            k = int(core.concretize(k)) if core.is_sym(k) else int(k)
        op = HIST_OPS[int(k)]
        pre = [row(m.df, i) for i in range(m.df.shape[0])]
        Rb = [_R_state(env, cm, b) for b in pre]
        tag = "step%d_%s" % (step, op)
        if op == "update":
            m.update_coordinates()
        elif op == "scale":
            f = env.real("factor%d" % step, 0.01, 100)
            m.scale_coordinates(f)
        elif op == "shift":
            sv = [env.real("s%d_%d" % (step, q), -100, 100) for q in range(3)]
            m.shift_positions(objcol(sv) if env.mode == "sym" else np.array(sv))
        elif op == "rotate":
            q = [env.angle("q%d_%d" % (step, j)) for j in range(3)]
            Qm = R_zxz(env, *q)
            m.apply_rotation(cm.rot.from_euler("zxz", objcol(q) if env.mode == "sym" else np.array(q), degrees=True))
        else:
            dz = [env.real("dimz%d_%d" % (step, t), 1, 10000) for t in (1, 2)]
            m.flip_handedness(_dims(env, "Nx4", dz[0], dz[1]))
        env.check(tag + "_row_count", env.true() if m.df.shape[0] == len(pre) else env.not_(env.true()))
        if m.df.shape[0] != len(pre):
            return
        for i, b in enumerate(pre):
            a = row(m.df, i)
            pb, pa = _pos(b), _pos(a)
            if op == "update":
                env.check("%s_position_invariant_%d" % (tag, i), vec_eq(env, pa, pb))
                for c in ("x", "y", "z"):
                    env.check("%s_integer_%s_%d" % (tag, c, i), env.is_int(a[c]))
                    env.check("%s_half_bound_%s_%d" % (tag, c, i), env.and_(env.le(a["shift_" + c], 0.5), env.ge(a["shift_" + c], -0.5)))
                keep = {"x", "y", "z", "shift_x", "shift_y", "shift_z"}
            elif op == "scale":
                env.check("%s_scaled_position_%d" % (tag, i), vec_eq(env, pa, [v * f for v in pb]))
                keep = {"x", "y", "z", "shift_x", "shift_y", "shift_z"}
            elif op == "shift":
                env.check("%s_moved_by_R_s_%d" % (tag, i), vec_eq(env, pa, [p_ + d for p_, d in zip(pb, mat_vec(Rb[i], sv))]))
                keep = {"shift_x", "shift_y", "shift_z"}
            elif op == "rotate":
                env.check("%s_orientation_is_R_Q_%d" % (tag, i), mat_eq(env, _R(env, a), mat_mul(Rb[i], Qm)))
                keep = {"phi", "theta", "psi"}
            else:
                d = dz[0] if float(b["tomo_id"]) == 1.0 else dz[1]
                env.check("%s_mirror_position_%d" % (tag, i), vec_eq(env, pa, [pb[0], pb[1], d + 1 - pb[2]]))
                env.check("%s_mirror_orientation_%d" % (tag, i), mat_eq(env, _R(env, a), mat_mul(S, mat_mul(Rb[i], S))))
                keep = {"phi", "theta", "psi", "z", "shift_z"}
            env.check("%s_others_unchanged_%d" % (tag, i), others_unchanged(env, b, a, keep))


def h_get_coordinates(env):
    cm, m, before = _setup(env, 1)
    c = m.get_coordinates()
    for i, b in enumerate(before):
        env.check("coordinates_are_x_plus_shift_%d" % i, vec_eq(env, list(c[i]), _pos(b)))
    c1 = m.get_coordinates(2.0)
    env.check("per_tomogram_selection", vec_eq(env, list(c1[0]), _pos(before[-1])) if len(c1) == 1 else env.not_(env.true()))
    # a tomogram numbered 0 is a tomogram like any other
    rows0 = [_sym_particle(env, "z0", tomo=0.0, sub=7.0), _second(3.0)]
    m0 = mk_motl(env, cm, rows0)
    b0 = [row(m0.df, i) for i in range(2)]
    c0 = m0.get_coordinates(0.0)
    env.check("tomogram_zero_selection", vec_eq(env, list(c0[0]), _pos(b0[0])) if len(c0) == 1 else env.not_(env.true()))
    rots = m.get_rotations()
    M = rots.as_matrix()
    for i, b in enumerate(before):
        env.check("rotation_matrix_%d" % i, mat_eq(env, [[M[i][r][c] for c in range(3)] for r in range(3)], _R(env, b)))


def jobs(tier, seed):
    n = 1
    j = [
        ("h_get_coordinates", {}),
        ("h_update_coordinates", {"n_sym": n}),
        ("h_scale_coordinates", {"n_sym": n}),
        ("h_shift_positions", {"n_sym": n, "inplace": True}),
        ("h_shift_positions", {"n_sym": n, "inplace": False}),
        ("h_shift_positions", {"n_sym": n, "inplace": True, "twice": True}),
        ("h_apply_rotation", {"n_sym": n}),
        ("h_apply_rotation", {"n_sym": n, "twice": True}),
        ("h_flip_handedness", {"kind": "Nx4"}),
        ("h_flip_handedness", {"kind": "Nx4_df"}),
        ("h_flip_handedness", {"kind": "1x3"}),
        ("h_flip_handedness", {"kind": "1x3_list", "single_tomo": True}),
        ("h_flip_handedness", {"kind": "Nx4", "twice": True}),
        ("h_flip_handedness", {"kind": "Nx4_df", "twice": True, "reuse": True}),
        ("h_flip_handedness", {"kind": "Nx4", "twice": True, "reuse": True}),
        ("h_flip_handedness", {"kind": "Nx4", "order": "unsorted", "index": "gaps"}),
        ("h_update_coordinates", {"n_sym": n, "index": "gaps"}),
        ("h_scale_coordinates", {"n_sym": n, "index": "reversed"}),
        ("h_shift_positions", {"n_sym": n, "inplace": True, "index": "gaps"}),
        ("h_apply_rotation", {"n_sym": n, "index": "gaps"}),
        ("h_apply_rotation", {"n_sym": n, "twice": True, "index": "reversed"}),
        ("h_history", {"length": 3}),
    ]
    if tier == "thorough":
        j += [("h_update_coordinates", {"n_sym": 2}), ("h_scale_coordinates", {"n_sym": 2}),
              ("h_shift_positions", {"n_sym": 2, "inplace": True}), ("h_apply_rotation", {"n_sym": 2}),
              ("h_flip_handedness", {"kind": "1x3", "twice": True}), ("h_history", {"length": 4}), ("h_history", {"length": 3, "index": "gaps"})]
    return j
