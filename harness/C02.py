"""C02 — STAR files read back to the same blocks, columns, rows and values."""
import itertools, json, os, sys, time
import numpy as np
import pandas as pd
from .common import *  # noqa

PROPERTY = "C02"
EXPLANATION = ("(a) CrossHair (symbolic strings, z3): starfileio.Token.tokenize equals an independent tokenizer for every text within the length/alphabet bound, "
               "plus the 'loop_' keyword embedded between symbolic prefixes/suffixes. (b) Layout: STAR texts are generated from small integers chosen by "
               "solver forks (all assignments of the finite layout domain: blank/comment lines at the permitted places, separators, CRLF, final newline, "
               "trailing whitespace, label comments, 1-2 blocks, 1-2 columns, 0-2 rows) and the real Starfile.read must return the generating structure. "
               "(c) Writer->reader: frames with integer, float (exact in 6 decimals) and text cells, 1-3 blocks, numbered/un-numbered headers, RELION and "
               "STOPGAP block names through the real Starfile.write and Starfile.read.")
ASSUMPTIONS = ["tokenizer: len(text) <= 4 (quick) / 5 (thorough) over the alphabet {space, tab, LF, CR, '#', '_', 'a', '1'}; texts of length <= 7 (8) containing the keyword 'loop_' once, other characters from the same alphabet",
               "layouts and tables: finite domains listed in BOUNDS; cell values concrete"]
OUTSIDE = ["numeric cells 'equal after rounding to 6 decimals' for ARBITRARY floats: float<->text conversion (DataFrame.round, str(float), pd.to_numeric) is library C code without an SMT theory; floats used are exact in 6 decimals",
           "texts outside the stated grammar (behaviour unspecified)", "tables with more than 3 columns / 2 rows in the layout job, 200-row tables"]
BOUNDS = {"quick": {"tokenizer_len": 4}, "thorough": {"tokenizer_len": 5}}
EXPECTED_EXCEPTIONS = ()
OPTS = {"max_paths": 6000, "budget_s": 220}


def _false(env):
    return env.not_(env.true())


def _conc(env, v):
    if env.mode == "sym":
        from sx import core
        return int(core.concretize(v)) if core.is_sym(v) else int(v)
    return int(v)


def _pick(env, name, k):
    return _conc(env, env.choice(name, list(range(k))))


CELLS = [["a1", "7", "x_y"], ["b2", "42", "k"], ["c-3", "0", "zz9"]]


def h_layout(env, nblocks=1, variant=0):
    """hand-built STAR text with comments / blank lines in the permitted places; the reader must return the generating structure"""
    sf = env.module("starfileio")
    ncols = 1 + _pick(env, "ncols", 2)
    nrows = _pick(env, "nrows", 3)
    pre = _pick(env, "pre", 3)             # before a block: nothing / blank line / comment line
    after = _pick(env, "after", 3)         # after the labels
    between = _pick(env, "between", 3)     # between blocks (only with 2 blocks)
    sep = [" ", "  \t "][_pick(env, "sep", 2)]
    crlf = _pick(env, "crlf", 2)
    final_nl = _pick(env, "final_nl", 2)
    trail = _pick(env, "trail", 2)         # trailing whitespace on the loop_ line and on rows
    labelnum = _pick(env, "labelnum", 2)   # labels carry '#n'
    filler = {0: [], 1: [""], 2: ["# a comment line"]}
    lines = []
    blocks = []
    for b in range(nblocks):
        name = ["data_", "data_particles"][b % 2] if variant == 0 else ["data_optics", "data_stopgap_motivelist"][b % 2]
        lines += filler[pre] if b == 0 else filler[between]
        lines.append(name)
        lines.append("")
        lines.append("loop_" + ("  \t" if trail else ""))
        cols = ["rlnCol%d" % c for c in range(ncols)]
        for c, col in enumerate(cols):
            lines.append("_" + col + ((" #%d" % (c + 1)) if labelnum else "") + ("  " if trail else ""))
        lines += filler[after]
        # an empty table is legal only as the last block (and then the file ends with a newline, as every writer produces it)
        nr = nrows if (b == nblocks - 1 and (nrows > 0 or final_nl)) else max(nrows, 1)
        rows = [[CELLS[r][c] for c in range(ncols)] for r in range(nr)]
        for r in rows:
            lines.append(sep.join(r) + ("\t " if trail else ""))
        blocks.append((name, cols, rows))
        if b < nblocks - 1 and between == 0:
            lines.append("")               # blocks are separated by at least a blank line in every STAR writer
    text = ("\r\n" if crlf else "\n").join(lines) + (("\r\n" if crlf else "\n") if final_nl else "")
    p = env.real_path("layout.star")
    with open(p, "w", newline="") as fh:
        fh.write(text)
    frames, specs, comments = sf.Starfile.read(p)
    env.check("block_names_in_order", env.true() if list(specs) == [b[0] for b in blocks] else _false(env))
    env.check("number_of_frames", env.true() if len(frames) == len(blocks) else _false(env))
    for k, (name, cols, rows) in enumerate(blocks):
        if k >= len(frames):
            break
        f = frames[k]
        env.check("block_%d_labels_in_order" % k, env.true() if list(f.columns) == cols else _false(env))
        env.check("block_%d_row_count" % k, env.true() if f.shape[0] == len(rows) else _false(env))
        if f.shape[0] != len(rows) or list(f.columns) != cols:
            continue
        for c, col in enumerate(cols):
            exp = [r[c] for r in rows]
            got = list(f[col])
            numeric = len(exp) > 0 and all(_is_num(v) for v in exp)
            if numeric:
                env.check("block_%d_col_%d_numeric_values" % (k, c), env.true() if [float(g) for g in got] == [float(e) for e in exp] and not any(isinstance(g, str) for g in got) else _false(env))
            else:
                env.check("block_%d_col_%d_text_values" % (k, c), env.true() if [str(g) for g in got] == exp and all(isinstance(g, str) for g in got) else _false(env))


def _is_num(s):
    try:
        float(s)
        return True
    except ValueError:
        return False


TEXTS = [["TS_017", "TS_018", "x9"], ["017", "018b", "2a"], ["1", "2", "unassigned"], ["A", "B", "A"],
         ["M\u00fcller/TS_1", "\u00c5", "\u6837\u54c1_3"],
         ["5\"UTR", "it's", "a,b;c|d"]]          # quote characters and separators of other table formats inside text tokens          # non-ASCII text tokens (the file is written and read as text)
INTS = [[1, 12, 105], [7, 7, 3]]
FLOATS = [[0.5, -1.25, 100.125], [3.141593, 2.0, -0.000001]]
SPECS = [["data_"], ["data_optics", "data_particles"], ["data_stopgap_motivelist"], ["data_optics", "data_particles", "data_extra"]]


def h_write_read(env):
    """real Starfile.write then Starfile.read: same block names, labels, rows, values"""
    sf = env.module("starfileio")
    si = _pick(env, "spec", len(SPECS))
    specs = SPECS[si]
    nrows = 1 + _pick(env, "nrows", 3)
    number_columns = bool(_pick(env, "numcols", 2))
    ti, ii, fi = _pick(env, "text", len(TEXTS)), _pick(env, "ints", len(INTS)), _pick(env, "floats", len(FLOATS))
    order = _pick(env, "order", 3)
    last_empty = _pick(env, "last_empty", 2) if len(specs) > 1 else 0
    frames = []
    for b, name in enumerate(specs):
        n = nrows if not (last_empty and b == len(specs) - 1) else 0
        cols = {"rlnName": TEXTS[(ti + b) % len(TEXTS)][:n], "rlnCount": INTS[(ii + b) % len(INTS)][:n], "rlnValue": FLOATS[(fi + b) % len(FLOATS)][:n]}
        names = [["rlnName", "rlnCount", "rlnValue"], ["rlnValue", "rlnName", "rlnCount"], ["rlnCount", "rlnValue", "rlnName"]][order]
        frames.append(pd.DataFrame({k: cols[k] for k in names}, columns=names))
    expect = [f.copy() for f in frames]
    p = env.real_path("wr.star")
    sf.Starfile.write([f.copy() for f in frames], p, specifiers=list(specs), number_columns=number_columns)
    got, gspecs, _ = sf.Starfile.read(p)
    env.check("block_names_in_order", env.true() if list(gspecs) == list(specs) else _false(env))
    env.check("number_of_frames", env.true() if len(got) == len(expect) else _false(env))
    for k, (g, e) in enumerate(zip(got, expect)):
        env.check("block_%d_labels_in_order" % k, env.true() if list(g.columns) == list(e.columns) else _false(env))
        env.check("block_%d_row_count" % k, env.true() if g.shape[0] == e.shape[0] else _false(env))
        if list(g.columns) != list(e.columns) or g.shape[0] != e.shape[0]:
            continue
        for col in e.columns:
            ev, gv = list(e[col]), list(g[col])
            if col == "rlnName":
                ok = [str(v) for v in gv] == [str(v) for v in ev] and all(isinstance(v, str) for v in gv)
                if ev and all(_is_num(v) for v in ev):
                    ok = [float(v) for v in gv] == [float(v) for v in ev]     # a purely numeric text column is read as numbers
                env.check("block_%d_text_column_unchanged" % k, env.true() if ok else _false(env))
            else:
                ok = len(gv) == len(ev) and all(abs(float(a) - round(float(b), 6)) <= 1e-9 for a, b in zip(gv, ev)) and not any(isinstance(v, str) for v in gv)
                env.check("block_%d_%s_numeric_to_6_decimals" % (k, col), env.true() if ok else _false(env))


def jobs(tier, seed):
    return [("h_layout", {"nblocks": 1}), ("h_layout", {"nblocks": 2}), ("h_layout", {"nblocks": 2, "variant": 1}), ("h_write_read", {})]


def run(tier, seed, args):
    """explorer jobs + CrossHair conditions, one evidence file"""
    from sx import explore, report, cli, crosshair_run
    t0 = time.time()
    n = 4 if tier == "quick" else 5
    src = open(os.path.join(cli.ROOT, "tier_s", "c02_tok.py")).read()
    gen = src.replace("len(text) <= 4", "len(text) <= %d" % n).replace("len(text) <= 7", "len(text) <= %d" % (7 if tier == "quick" else 8))
    gpath = os.path.join(cli.ROOT, "tier_s", "_c02_tok_gen.py")
    open(gpath, "w").write(gen)
    pct = 140 if tier == "quick" else 900
    targets = ["tier_s._c02_tok_gen.tok_matches", "tier_s._c02_tok_gen.loop_matches", "tier_s._c02_tok_gen.tok_matches_reach"]
    procs = crosshair_run.launch(targets, pct)
    mod = sys.modules[__name__]
    opts = dict(OPTS)
    max_paths = opts.pop("max_paths")
    budget = opts.pop("budget_s") if tier == "quick" else 900
    opts.setdefault("qtimeout", 10.0)
    opts.setdefault("otimeout", 20.0)
    res = explore.explore("harness.C02", jobs(tier, seed), opts, workers=13, max_paths=max_paths if tier == "quick" else 40000, budget_s=budget)
    ch = crosshair_run.collect(procs, pct + 60)
    try:
        os.unlink(gpath)
    except OSError:
        pass
    ch_rows, extra_viol = [], []
    n_conf = n_inc = 0
    for target, text, secs in ch:
        verdict, detail = crosshair_run.classify(target, text)
        name = target.rsplit(".", 1)[1]
        row = {"condition": name, "verdict": verdict, "detail": detail, "seconds": round(secs, 1)}
        if name.endswith("_reach"):
            # reachability twin: its negated postcondition must be REFUTED (the precondition is satisfiable, the assertion reached)
            row["role"] = "vacuity witness"
            row["ok"] = verdict == "refuted"
            if verdict != "refuted":
                n_inc += 1
        else:
            if verdict == "confirmed":
                n_conf += 1
            elif verdict == "refuted":
                ok, inp = crosshair_run.replay_call(target.replace("_c02_tok_gen", "c02_tok"), detail)
                row["replay"] = {"holds_on_plain_code": ok, "input": inp}
                if ok is False:
                    extra_viol.append({"fn": name, "params": {}, "obligation": "tokenizer_equals_reference", "model": {"input": json.dumps(inp, default=str)}, "why": "CrossHair counterexample reproduced: " + (detail or "")})
                else:
                    n_inc += 1
            else:
                n_inc += 1
        ch_rows.append(row)
    known = cli.load_known()
    extra = {"crosshair": ch_rows, "crosshair_confirmed": n_conf, "crosshair_inconclusive": n_inc,
             "checker_cmd": "python -m crosshair check --report_all --per_condition_timeout %d <condition>" % pct}
    return report.finish(PROPERTY, mod, tier, seed, res, known, t0, verbose=getattr(args, "v", False), extra_cov=extra, extra_violations=extra_viol,
                         extra_obligations=(len([r for r in ch_rows if not r["condition"].endswith("_reach")]), n_conf, n_inc))
