"""C16 — dose filtering applies the Grant-Grigorieff exposure attenuation."""
import numpy as np
from .common import *  # noqa

PROPERTY = "C16"
EXPLANATION = ("Real tiltstack.dose_filter_single_image executed on lazy functional arrays with symbolic image size, dose and an arbitrary frequency array: "
               "FFT2/IFFT2 opaque linear operators, fftshift/ifftshift exact index maps, exp/pow uninterpreted - the result is Real(IFFT2(FFT2(img)*q)) "
               "and q at a symbolic frequency index is compared with exp(-dose/(2*(0.245*f^-1.665+2.81))) by equality of the function arguments. "
               "Real tiltstack.dose_filter (Python loops, concrete small image sizes): the frequency array, the per-image dose pairing and the assembly of "
               "the output are decided per pixel with symbolic pixel size and doses.")
ASSUMPTIONS = ["single image: height/width independent integers in [4,64], dose real in [0,300], frequency array arbitrary non-negative",
               "stack: image sizes enumerated (quick {4x5, 5x4}, thorough up to 8x7), 1..3 images, pixel size real in [0.5,10], doses reals in [0,300]"]
OUTSIDE = ["image sizes of the full dose_filter as symbols (the frequency array is filled by Python loops over range(width))", "exp and pow are uninterpreted: only exp(0)=1, exp>0, exp monotone and exp(a)exp(b)=exp(a+b) instances are used", "float rounding (A0)"]
BOUNDS = {"quick": {"stack_sizes": [[4, 5], [5, 4]]}, "thorough": {"stack_sizes": [[4, 5], [5, 4], [6, 6], [8, 7], [7, 8]]}}
EXPECTED_EXCEPTIONS = ()
OPTS = {"qtimeout": 30.0}
A, B, C = 0.245, -1.665, 2.81


def _false(env):
    return env.not_(env.true())


def at(arr, idx):
    if hasattr(arr, "at"):
        return arr.at(idx)
    return arr[tuple(int(i) for i in idx)]


def _q(env, dose, f, f_is_zero=False):
    if f_is_zero:
        return 1.0
    return env.fun("exp", (-dose) / (2 * ((A * env.fun("pow", f, B)) + C)))


def h_single(env, dc=False):
    ts = env.module("tiltstack")
    H = env.integer("H", 4, 64)
    W = env.integer("W", 4, 64)
    y = env.integer("fy", 0, 63)
    x = env.integer("fx", 0, 63)
    env.assume(env.and_(env.lt(y, H), env.lt(x, W)))
    dose = env.real("dose", 0, 300)
    # centred position of FFT index (y,x): where the (shifted) frequency array is read
    pyc = env.ite(env.lt(y + H // 2, H), y + H // 2, y + H // 2 - H)
    pxc = env.ite(env.lt(x + W // 2, W), x + W // 2, x + W // 2 - W)
    if env.mode == "sym":
        from sx import larray, core
        img = larray.uf_array("img", (H, W))
        F = larray.uf_array("F", (H, W), rng=(0, 10))
        fval = F.at((core.SNum(core.zterm(pyc)) if False else _as_int(pyc), _as_int(pxc)))
        if dc:
            env.assume(env.eq(fval, 0))
        else:
            env.assume(env.gt(fval, 0))
        out = ts.dose_filter_single_image(img, dose, F)
        ok = hasattr(out, "gain") and out.gain is not None and core.zreal(out.src.at((y, x))).eq(core.zreal(img.at((y, x))))
        env.check("result_is_Real_IFFT2_of_FFT2_img_times_q", env.true() if ok else _false(env))
        if not ok:
            return
        g = out.gain.at((y, x))
        from sx import solve
        env.check("attenuation_independent_of_the_image", env.true() if "img" not in solve._syms(core.zreal(g)) else _false(env))
        if dc:
            # f = 0: the uninterpreted pow cannot express 0**negative = inf; the documented limit is q = 1 (mean unchanged).
            # The real code reaches it through numpy's inf arithmetic, covered by the concrete run and by h_stack (f literally 0).
            return
        env.check("attenuation_formula", env.eq(g, _q(env, dose, fval)))
    else:
        rng = np.random.default_rng(5)
        Hc, Wc = int(H), int(W)
        img = rng.standard_normal((Hc, Wc))
        F = rng.random((Hc, Wc)) * 0.4 + 0.01
        if dc:
            F[int(pyc), int(pxc)] = 0.0
        with np.errstate(divide="ignore"):
            out = ts.dose_filter_single_image(img, float(dose), F)
        X, Y = np.fft.fft2(img), np.fft.fft2(out)
        if abs(X[int(y), int(x)]) < 1e-9:
            return
        g = Y[int(y), int(x)] / X[int(y), int(x)]
        # the output keeps only the real part: compare with the real-part-symmetrised expected gain only where the gain map is symmetric;
        # generic F is not symmetric, so evaluate the code's q directly instead (same formula on the same F)
        fval = F[int(pyc), int(pxc)]
        qexp = 1.0 if fval == 0 else np.exp(-float(dose) / (2 * (A * fval ** B + C)))
        # reconstruct: IFFT2(FFT2(img)*qmap) with qmap from the formula; its real part must equal the output
        with np.errstate(divide="ignore"):
            qmap = np.exp(-float(dose) / (2 * (A * F ** B + C)))
        ref = np.fft.ifft2(np.fft.ifftshift(np.fft.fftshift(X) * qmap)).real
        env.check("attenuation_formula", bool(np.allclose(out, ref, atol=1e-9)))
        env.check("dc_gain_is_one" if dc else "gain_value", env.eq(qmap[int(pyc), int(pxc)], qexp))


def _as_int(v):
    from sx import core
    import z3
    if core.is_sym(v):
        e = core.zterm(v)
        return core.SNum(z3.ToInt(e) if z3.is_real(e) else e)
    return int(v)


def h_stack(env, size=(4, 5), n=2, input_order="zyx", twice=False, dtype="float64"):
    """dose_filter: frequency array, dose pairing, output assembly (calls to dose_filter_single_image are recorded)"""
    ts = env.module("tiltstack")
    Hc, Wc = int(size[0]), int(size[1])
    px = env.real("pixel", 0.5, 10)
    doses = [env.real("dose%d" % k, 0, 300) for k in range(n)]
    shape = (n, Hc, Wc) if input_order == "zyx" else (Wc, Hc, n)
    if env.mode == "sym":
        from sx import larray
        stack = larray.uf_array("img", shape, tag=dtype)
        dl = objcol(doses)
    else:
        stack = np.random.default_rng(9).standard_normal(shape)
        if dtype != "float64":
            stack = (stack * 1000).astype(dtype)          # raw counts (MRC mode 1)
        dl = np.array(doses)
    if twice:
        # an earlier call in the same process on a stack of the SAME image size but another pixel size must leave nothing behind
        px0 = env.real("pixel_before", 0.5, 10)
        env.assume(env.not_(env.eq(px0, px)))
        with np.errstate(divide="ignore"):
            ts.dose_filter(stack, px0, dl, input_order=input_order, output_order=input_order)
    calls = []
    orig = ts.dose_filter_single_image

    def rec(image, dose, freq_array):
        snap = image.copy() if hasattr(image, "copy") else image      # numpy hands out a view that is overwritten later
        r = orig(image, dose, freq_array)
        calls.append((snap, dose, freq_array, r))
        return r
    ts.dose_filter_single_image = rec
    try:
        with np.errstate(divide="ignore"):
            out = ts.dose_filter(stack, px, dl, input_order=input_order, output_order=input_order)
    finally:
        ts.dose_filter_single_image = orig
    env.check("one_filter_call_per_image", env.true() if len(calls) == n else _false(env))
    if len(calls) != n:
        return
    y = env.integer("py", 0, Hc - 1)
    x = env.integer("pxi", 0, Wc - 1)
    pix = (lambda arr, z, yy, xx: at(arr, (z, yy, xx)) if input_order == "zyx" else at(arr, (xx, yy, z)))
    for z, (image, dose, F, r) in enumerate(calls):
        env.check("image_%d_is_tilt_%d" % (z, z), env.eq(at(image, (y, x)), pix(stack, z, y, x)))
        env.check("dose_%d_paired_with_tilt_%d" % (z, z), env.eq(dose, doses[z]))
        if dtype == "float64":
            env.check("output_%d_is_filtered_tilt_%d" % (z, z), env.eq(pix(out, z, y, x), at(r, (y, x))))
    F = calls[0][2]
    for yy in range(Hc):
        for xx in range(Wc):
            f2 = ((xx - Wc // 2) / (Wc * px)) * ((xx - Wc // 2) / (Wc * px)) + ((yy - Hc // 2) / (Hc * px)) * ((yy - Hc // 2) / (Hc * px))
            fv = F[yy, xx]
            env.check("frequency_squared_%d_%d" % (yy, xx), env.eq(fv * fv if env.mode == "conc" else fv ** 2, f2))
    # zero-frequency pixel: the attenuation is exactly 1 whatever the dose (image mean unchanged)
    if env.mode == "sym":
        g = calls[0][3].gain
        from sx import numstubs
        cy, cx = Hc // 2, Wc // 2       # centred position of the DC term; FFT index (0,0)
        env.check("dc_attenuation_is_one", env.eq(g.at((0, 0)), 1.0))
    elif dtype == "float64":
        env.check("mean_unchanged", env.eq(float(np.mean(pix_plane(out, 0, input_order))), float(np.mean(pix_plane(stack, 0, input_order)))))
    else:
        # integer stacks: the result is rounded towards zero when it is stored back, so the mean moves by less than one count
        env.check("mean_unchanged_within_one_count", abs(float(np.mean(pix_plane(out, 0, input_order))) - float(np.mean(pix_plane(stack, 0, input_order)))) < 1.0)


def pix_plane(arr, z, order):
    return arr[z, :, :] if order == "zyx" else arr[:, :, z]


def h_consequences(env):
    """zero dose = identity; more dose attenuates more; d1 then d2 = d1 + d2 (from exp's functional equation)"""
    f = env.real("f", 0.001, 5)
    d1 = env.real("d1", 0, 300)
    d2 = env.real("d2", 0, 300)
    if env.mode == "sym":
        from sx import core
        import z3
        den = 2 * ((A * env.fun("pow", f, B)) + C)
        # pow(f, b) >= 0 for f > 0 (real power of a positive number)
        env.assume(env.ge(env.fun("pow", f, B), 0))
        q0, q1, q2, q12 = (env.fun("exp", (-d) / den) for d in (0.0, d1, d2, d1 + d2))
        a1, a2 = (-d1) / den, (-d2) / den
        # instances of the exponential's laws (trusted mathematics): monotone, exp(a)exp(b)=exp(a+b)
        env.assume(env.implies(env.le(a2, a1), env.le(q2, q1)))
        env.assume(env.eq(q1 * q2, q12))
        env.check("zero_dose_is_identity", env.eq(q0, 1.0))
        env.check("power_never_increases", env.and_(env.le(q1, 1.0), env.gt(q1, 0.0)))
        env.check("more_dose_attenuates_more", env.implies(env.le(d1, d2), env.le(q2, q1)))
        env.check("d1_then_d2_equals_d1_plus_d2", env.eq(q1 * q2, q12))
    else:
        q = lambda d: np.exp(-float(d) / (2 * (A * float(f) ** B + C)))
        env.check("zero_dose_is_identity", env.eq(q(0.0), 1.0))
        env.check("power_never_increases", q(d1) <= 1.0)
        env.check("more_dose_attenuates_more", env.implies(d1 <= d2, q(d2) <= q(d1)))
        env.check("d1_then_d2_equals_d1_plus_d2", env.eq(q(d1) * q(d2), q(d1 + d2)))


def jobs(tier, seed):
    j = [("h_single", {}), ("h_single", {"dc": True}), ("h_consequences", {})]
    sizes = [[4, 5], [5, 4]] if tier == "quick" else [[4, 5], [5, 4], [6, 6], [8, 7], [7, 8]]
    for k, sz in enumerate(sizes):
        j.append(("h_stack", {"size": sz, "n": 2 + (k % 2), "input_order": ["zyx", "xyz"][k % 2]}))
    j.append(("h_stack", {"size": [5, 4], "n": 2, "input_order": "zyx", "twice": True}))
    j.append(("h_stack", {"size": [4, 5], "n": 2, "input_order": "zyx", "dtype": "int16"}))     # integer stacks: the frequency array must not inherit the stack's dtype
    return j
