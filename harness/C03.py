"""C03 — RELION <-> cryoCAT conversion preserves each particle's pose and identity."""
import numpy as np
import pandas as pd
from .common import *  # noqa

PROPERTY = "C03"
EXPLANATION = ("Real RelionMotl.__init__/convert_to_motl/convert_shifts/convert_angles_from_relion/convert_angles_to_relion/parse_tomo_id/"
               "parse_subtomo_id/prepare_particles_data/create_relion_df and emmotl2relion/relion2emmotl on real pandas frames; coordinates, "
               "shifts/origins, pixel size, binning are solver reals, Euler angles are points of the unit circle (every orientation incl. gimbal lock); "
               "scipy Rotation replaced by the polynomial rotation algebra with as_euler specified by its contract. Oracle: independent statement "
               "of the two conventions (ZYZ intrinsic matrix = transpose of the zxz extrinsic matrix).")
ASSUMPTIONS = ["N = 1 symbolic particle for pose obligations (+ concrete companions); ids concrete, enumerated (multi-digit, non-sequential, both parities)",
               "pixel size in [0.1, 20], binning in [0.25, 8]; coordinates in [-4000,4000], shifts/origins in [-50,50]",
               "versions 3.0, 3.1, 4.0 enumerated; name formats '', '$xxx', 'T_$xxxx/$xxxx_$yyy.mrc' style enumerated"]
OUTSIDE = ["round trip through a STAR *file* for arbitrary numeric cells (float<->text)", "optics block contents (create_final_output only stacks frames)", "float rounding (A0)"]
BOUNDS = {"quick": {"particles": "1 symbolic + 2 concrete"}, "thorough": {"particles": "2 symbolic + 2 concrete"}}
EXPECTED_EXCEPTIONS = ()
OPTS = {"qtimeout": 30.0}


def _false(env):
    return env.not_(env.true())


def _motl_rows(env, ids):
    """first row symbolic pose, others concrete; ids = list of (tomo, subtomo, class)"""
    rows = []
    for i, (t, s, c) in enumerate(ids):
        if i == 0:
            p = particle(env, "p", lo=-4000, hi=4000)
            for k in ("shift_x", "shift_y", "shift_z"):
                env.assume(env.and_(env.ge(p[k], -50), env.le(p[k], 50)))
        else:
            p = {"x": 100.0 * i, "y": 50.0 + i, "z": 10.0 * i, "shift_x": 0.25 * i, "shift_y": -0.5, "shift_z": 0.75, "phi": 30.0 * i, "theta": 180.0 if i == 1 else 0.0, "psi": -45.0}
        p.update({"tomo_id": float(t), "subtomo_id": float(s), "class": float(c), "score": 0.5, "object_id": float(i + 1), "geom2": float(i + 3)})
        rows.append(p)
    return rows


IDS = {"a": [(7, 12, 2), (7, 105, 1), (12, 3, 3)], "b": [(105, 1, 1), (1, 2, 2), (12, 7, 1)]}


def _ang_eq_inverse(env, rot, tilt, psi, phi, theta, ps):
    return mat_eq(env, R_ZYZ_intrinsic(env, rot, tilt, psi), mat_T(R_zxz(env, phi, theta, ps)))


def h_export(env, version=3.1, ids="a", tomo_format="", subtomo_format="", binning_sym=True, via="class", object_version=None, index="default"):
    cm = env.module("cryomotl")
    rows = _motl_rows(env, IDS[ids])
    df = mk_df(env, rows)
    px = env.real("pixel", 0.1, 20)
    bn = env.real("binning", 0.25, 8) if (binning_sym and version >= 4.0) else 1.0
    if via == "class":
        rm = cm.RelionMotl(df, version=object_version if object_version is not None else version, pixel_size=px, binning=bn)
    else:
        rm = cm.emmotl2relion(df, relion_version=version, pixel_size=px, binning=bn)
        # emmotl2relion first calls update_coordinates: the complete position is unchanged by it (C05)
    if index == "gaps" and via == "class":
        rm.df.index = [5, 2, 9][: len(rows)]          # row labels left by remove_feature / a subset without reset: a reachable state of the list
    if object_version is not None:
        # an object of one RELION version exported as another one
        rdf = rm.create_relion_df(tomo_format=tomo_format, subtomo_format=subtomo_format, version=version)
    else:
        rdf = rm.create_relion_df(tomo_format=tomo_format, subtomo_format=subtomo_format)
    env.check("row_count", env.true() if rdf.shape[0] == len(rows) else _false(env))
    if rdf.shape[0] != len(rows):
        return
    tomo_name, sub_name, shift_names, _ = {3.0: ("rlnMicrographName", "rlnImageName", ["rlnOriginX", "rlnOriginY", "rlnOriginZ"], 0),
                                           3.1: ("rlnMicrographName", "rlnImageName", ["rlnOriginXAngst", "rlnOriginYAngst", "rlnOriginZAngst"], 0),
                                           4.0: ("rlnTomoName", "rlnTomoParticleName", ["rlnOriginXAngst", "rlnOriginYAngst", "rlnOriginZAngst"], 0)}[version]
    for i, r in enumerate(rows):
        a = {c: rdf[c].iloc[i] for c in rdf.columns}
        scale = bn if version >= 4.0 else 1.0
        for ax in "xyz":
            env.check("coordinate_%s_%d" % (ax, i), env.eq(a["rlnCoordinate" + ax.upper()], (r[ax] + r["shift_" + ax]) * scale))
        for sn in shift_names:
            env.check("origin_zero_%s_%d" % (sn, i), env.eq(a[sn], 0.0))
        env.check("angles_inverse_rotation_%d" % i, _ang_eq_inverse(env, a["rlnAngleRot"], a["rlnAngleTilt"], a["rlnAnglePsi"], r["phi"], r["theta"], r["psi"]))
        env.check("class_%d" % i, env.eq(a["rlnClassNumber"], r["class"]))
        if "rlnRandomSubset" in rdf.columns:
            env.check("halfset_parity_%d" % i, env.eq(a["rlnRandomSubset"], 2.0 if int(r["subtomo_id"]) % 2 == 0 else 1.0))
        # identity in names
        t, s = int(r["tomo_id"]), int(r["subtomo_id"])
        tn, sn_ = a[tomo_name], a[sub_name]
        if tomo_format == "":
            env.check("tomo_number_%d" % i, env.true() if float(tn) == t else _false(env))
        else:
            env.check("tomo_name_%d" % i, env.true() if tn == _fmt(tomo_format, t, None) else _false(env))
        if subtomo_format == "":
            env.check("subtomo_number_%d" % i, env.true() if float(sn_) == s else _false(env))
        else:
            env.check("subtomo_name_%d" % i, env.true() if sn_ == _fmt(subtomo_format, t, s) else _false(env))
        if version < 4.0:
            env.check("pixel_size_column_%d" % i, env.eq(a["rlnPixelSize"], px))


def _fmt(fmt, t, s):
    import re
    out = fmt
    ys = sorted(re.findall(r"\$(?:y)+", fmt), key=len)
    if ys and s is not None:
        out = out.replace(ys[-1], str(s).zfill(len(ys[-1]) - 1))
    xs = sorted(re.findall(r"\$(?:x)+", fmt), key=len)
    if xs:
        out = out.replace(xs[-1], str(t).zfill(len(xs[-1]) - 1))
    return out


def _relion_frame(env, version, ids, names="numbers", halfsets=True):
    """an independently written RELION table: first row symbolic, others concrete"""
    rows = []
    for i, (t, s, c) in enumerate(IDS[ids]):
        r = {}
        if i == 0:
            for ax in "XYZ":
                r["rlnCoordinate" + ax] = env.real("coord%s" % ax, -4000, 4000)
                r["org" + ax] = env.real("origin%s" % ax, -50, 50)
            r["rlnAngleRot"], r["rlnAngleTilt"], r["rlnAnglePsi"] = env.angle("rot"), env.angle("tilt"), env.angle("rpsi")
        else:
            for k, ax in enumerate("XYZ"):
                r["rlnCoordinate" + ax] = 10.0 * i + k
                r["org" + ax] = 0.5 * i - k
            r["rlnAngleRot"], r["rlnAngleTilt"], r["rlnAnglePsi"] = 20.0 * i, 180.0 if i == 1 else 0.0, -30.0
        r["t"], r["s"], r["rlnClassNumber"] = t, s, float(c)
        r["rlnRandomSubset"] = float(1 if s % 2 == 1 else 2)
        rows.append(r)
    on = {3.0: ["rlnOriginX", "rlnOriginY", "rlnOriginZ"]}.get(version, ["rlnOriginXAngst", "rlnOriginYAngst", "rlnOriginZAngst"])
    tomo_col, sub_col = ("rlnTomoName", "rlnTomoParticleName") if version >= 4.0 else ("rlnMicrographName", "rlnImageName")
    data = {}
    for ax in "XYZ":
        data["rlnCoordinate" + ax] = [r["rlnCoordinate" + ax] for r in rows]
    for name, ax in zip(on, "XYZ"):
        data[name] = [r["org" + ax] for r in rows]
    for c in ("rlnAngleRot", "rlnAngleTilt", "rlnAnglePsi", "rlnClassNumber"):
        data[c] = [r[c] for r in rows]
    if halfsets:
        data["rlnRandomSubset"] = [r["rlnRandomSubset"] for r in rows]
    if names == "numbers":
        data[tomo_col] = [float(r["t"]) for r in rows]
        data[sub_col] = [float(r["s"]) for r in rows]
    elif version >= 4.0:
        data[tomo_col] = ["run3/set12/TS_%03d" % r["t"] for r in rows] if names == "strings_dirs" else ["TS_%03d" % r["t"] for r in rows]
        data[sub_col] = ["TS_%03d/%d" % (r["t"], r["s"]) for r in rows]
    else:
        data[tomo_col] = [("/data/session2/bin4/tomo_%04d.rec" if names == "strings_dirs" else "/data/run/tomo_%04d.rec") % r["t"] for r in rows]
        data[sub_col] = ["subtomo/T_%04d/T%04d_%05d_7.40A.mrc" % (r["t"], r["t"], r["s"]) for r in rows]
    if env.mode == "sym":
        df = pd.DataFrame({c: objcol(v) for c, v in data.items()})
    else:
        df = pd.DataFrame({c: (v if isinstance(v[0], str) else np.array([float(x) for x in v])) for c, v in data.items()})
    return rows, df, on


def h_import(env, version=3.1, ids="a", names="numbers", via="class", halfsets=True, auto_version=False, drop_tomo_col=False):
    cm = env.module("cryomotl")
    rows, rdf, on = _relion_frame(env, version, ids, names, halfsets)
    px = env.real("pixel", 0.1, 20)
    if drop_tomo_col:
        rdf = rdf.drop(columns=["rlnTomoName" if version >= 4.0 else "rlnMicrographName"])
    if via == "class":
        rm = cm.RelionMotl(rdf, version=(None if auto_version else version), pixel_size=px)
        if auto_version:
            env.check("version_recognised_from_columns", env.true() if float(rm.version) == float(version) else _false(env))
        mdf = rm.df
    else:
        mdf = cm.relion2emmotl(rdf, relion_version=version, pixel_size=px).df
    env.check("row_count", env.true() if mdf.shape[0] == len(rows) else _false(env))
    env.check("has_20_fields", env.true() if sorted(mdf.columns) == sorted(COLS) else _false(env))
    if mdf.shape[0] != len(rows):
        return
    subs = []
    for i, r in enumerate(rows):
        a = row(mdf, i)
        for ax in "xyz":
            env.check("position_%s_%d" % (ax, i), env.eq(a[ax], r["rlnCoordinate" + ax.upper()]))
            exp = -r["org" + ax.upper()] if version < 3.1 else -r["org" + ax.upper()] / px
            env.check("shift_%s_%d" % (ax, i), env.eq(a["shift_" + ax], exp))
        env.check("orientation_inverse_%d" % i, _ang_eq_inverse(env, r["rlnAngleRot"], r["rlnAngleTilt"], r["rlnAnglePsi"], a["phi"], a["theta"], a["psi"]))
        env.check("tomo_id_%d" % i, env.true() if float(a["tomo_id"]) == r["t"] else _false(env))
        env.check("class_%d" % i, env.eq(a["class"], r["rlnClassNumber"]))
        env.check("subtomo_number_in_geom3_%d" % i, env.true() if float(a["geom3"]) == r["s"] else _false(env))
        subs.append(float(a["subtomo_id"]))
        if halfsets:
            env.check("halfset_parity_%d" % i, env.true() if int(float(a["subtomo_id"])) % 2 == (1 if r["rlnRandomSubset"] == 1.0 else 0) else _false(env))
    env.check("subtomo_ids_unique", env.true() if len(set(subs)) == len(subs) else _false(env))
    if not halfsets:
        env.check("subtomo_ids_kept", env.true() if subs == [float(r["s"]) for r in rows] else _false(env))


def h_roundtrip(env, version=3.1, ids="a", tomo_format="", subtomo_format=""):
    cm = env.module("cryomotl")
    rows = _motl_rows(env, IDS[ids])
    df = mk_df(env, rows)
    px = env.real("pixel", 0.1, 20)
    rm = cm.RelionMotl(df, version=version, pixel_size=px, binning=1.0)
    rdf = rm.create_relion_df(tomo_format=tomo_format, subtomo_format=subtomo_format)
    back = cm.RelionMotl(rdf, version=version, pixel_size=px).df
    env.check("row_count", env.true() if back.shape[0] == len(rows) else _false(env))
    if back.shape[0] != len(rows):
        return
    for i, r in enumerate(rows):
        a = row(back, i)
        pos_b = [r[c] + r["shift_" + c] for c in "xyz"]
        pos_a = [a[c] + a["shift_" + c] for c in "xyz"]
        env.check("same_position_%d" % i, vec_eq(env, pos_a, pos_b))
        env.check("same_orientation_%d" % i, mat_eq(env, R_zxz(env, a["phi"], a["theta"], a["psi"]), R_zxz(env, r["phi"], r["theta"], r["psi"])))
        env.check("same_tomo_%d" % i, env.true() if float(a["tomo_id"]) == r["tomo_id"] else _false(env))
        env.check("same_class_%d" % i, env.eq(a["class"], r["class"]))
        env.check("subtomo_number_recoverable_%d" % i, env.true() if float(a["geom3"]) == r["subtomo_id"] else _false(env))
        env.check("halfset_parity_kept_%d" % i, env.true() if int(float(a["subtomo_id"])) % 2 == int(r["subtomo_id"]) % 2 else _false(env))


def h_via_file(env, version=3.1, optics=True, explicit=False):
    """export -> STAR file -> import (RelionMotl(path)): every particle returns to the same position and orientation.  Cell
    values are concrete and exact in the file's decimals (float<->text has no SMT theory); what varies by solver forks is the
    pixel size (from a finite set), the id pattern and whether version / pixel size are passed or taken from the file
    (optics block / column sniffing)."""
    cm = env.module("cryomotl")
    env.option("real_rotation", True)        # every cell is concrete here: rotations go through the real scipy class
    px = [1.0, 2.5, 0.75][_pickc(env, "px", 3)]
    ids = IDS[["a", "b"][_pickc(env, "ids", 2)]]
    rows = []
    for i, (t, sn, c) in enumerate(ids):
        r = {k: 0.0 for k in COLS}
        r.update(tomo_id=float(t), subtomo_id=float(sn), object_id=float(i + 1), x=10.0 + 3 * i, y=20.0 - i, z=5.0 + 7 * i,
                 shift_x=0.25 * (i + 1), shift_y=-0.5 * i, shift_z=0.125, phi=30.0 * i - 45.0, theta=[0.0, 90.0, 37.5][i % 3], psi=15.0 * i + 10.0, score=0.5)
        r["class"] = float(c)
        rows.append(r)
    df = pd.DataFrame({k: np.array([r[k] for r in rows], dtype=float) for k in COLS}, columns=COLS)
    p = env.real_path("particles.star")
    rm = cm.RelionMotl(df, version=version, pixel_size=px, binning=1.0)
    rm.write_out(p, write_optics=optics)
    back = cm.RelionMotl(p, version=version, pixel_size=px) if explicit else (cm.RelionMotl(p) if optics else cm.RelionMotl(p, pixel_size=px))
    bdf = back.df
    env.check("row_count", env.true() if bdf.shape[0] == len(rows) else env.not_(env.true()))
    env.check("version_recognised", env.true() if float(back.version) == float(version) else env.not_(env.true()))
    if bdf.shape[0] != len(rows):
        return
    import math

    def R(phi, theta, psi):
        return R_zxz(_PlainEnv, phi, theta, psi)
    for i, r in enumerate(rows):
        a = {k: float(bdf[k].iloc[i]) for k in COLS}
        okp = all(abs((a[c] + a["shift_" + c]) - (r[c] + r["shift_" + c])) <= 1e-4 for c in "xyz")
        env.check("file_same_position_%d" % i, env.true() if okp else env.not_(env.true()))
        Ra, Rr = R(a["phi"], a["theta"], a["psi"]), R(r["phi"], r["theta"], r["psi"])
        oko = all(abs(Ra[u][v] - Rr[u][v]) <= 1e-4 for u in range(3) for v in range(3))
        env.check("file_same_orientation_%d" % i, env.true() if oko else env.not_(env.true()))
        env.check("file_same_tomo_class_%d" % i, env.true() if (a["tomo_id"] == r["tomo_id"] and a["class"] == r["class"]) else env.not_(env.true()))
        env.check("file_subtomo_number_recoverable_%d" % i, env.true() if a["geom3"] == r["subtomo_id"] else env.not_(env.true()))
        env.check("file_halfset_parity_%d" % i, env.true() if int(a["subtomo_id"]) % 2 == int(r["subtomo_id"]) % 2 else env.not_(env.true()))


def h_import_file(env, version=3.1, optics=True, entry="class", reexport=False):
    """RELION data written by the harness' own writer (standard layout: data_optics first, then data_particles; origin shifts
    in Angstrom for >= 3.1, in pixels for 3.0; no rlnPixelSize column), imported WITHOUT telling the pixel size when an
    optics block is there.  Concrete cells (exact in 6 decimals); pixel size / half-set pattern by solver forks."""
    cm = env.module("cryomotl")
    env.option("real_rotation", True)
    px = [2.5, 1.0, 0.8][_pickc(env, "px", 3)]
    hs = [[1, 2, 1, 2], [2, 1, 1, 2]][_pickc(env, "hs", 2)]
    parts = [(5, 1, 1, (101.0, 202.0, 53.0), (2.5, -5.0, 7.5), (10.0, 30.0, -20.0)), (5, 2, 2, (310.5, 44.25, 61.0), (-1.25, 0.0, 3.75), (-135.0, 90.0, 170.0)),
             (12, 3, 1, (12.0, 400.0, 75.5), (10.0, 6.25, -8.75), (45.0, 0.0, 60.0)), (12, 4, 3, (250.0, 260.0, 80.0), (-12.5, 1.25, 0.0), (0.0, 180.0, 25.0))]
    path = env.real_path("independent.star")
    org = ["rlnOriginX", "rlnOriginY", "rlnOriginZ"] if version < 3.1 else ["rlnOriginXAngst", "rlnOriginYAngst", "rlnOriginZAngst"]
    with open(path, "w") as f:
        if optics:
            f.write("\n# version 30001\n\ndata_optics\n\nloop_\n")
            oc = ["rlnOpticsGroup", "rlnOpticsGroupName", "rlnSphericalAberration", "rlnVoltage", "rlnImagePixelSize", "rlnImageSize", "rlnImageDimensionality"]
            for i, c in enumerate(oc, 1):
                f.write("_%s #%d\n" % (c, i))
            f.write("1\topticsGroup1\t2.700000\t300.000000\t%.6f\t64\t3\n\n" % px)
        f.write("\n# version 30001\n\ndata_particles\n\nloop_\n" if version >= 3.1 else "\ndata_\n\nloop_\n")       # RELION 3.0 files carry no version comment
        cols = (["rlnTomoName", "rlnTomoParticleName"] if version >= 4.0 else ["rlnMicrographName", "rlnImageName"]) + ["rlnCoordinateX", "rlnCoordinateY", "rlnCoordinateZ"] + org + \
               ["rlnAngleRot", "rlnAngleTilt", "rlnAnglePsi", "rlnClassNumber", "rlnRandomSubset"] + (["rlnOpticsGroup"] if optics else [])
        for i, c in enumerate(cols, 1):
            f.write("_%s #%d\n" % (c, i))
        for k, (t, sn, cl, coord, origin, ang) in enumerate(parts):
            names = ["TS_%03d" % t, "TS_%03d/%d" % (t, sn)] if version >= 4.0 else ["/data/tomos/%03d_bin4.rec" % t, "/data/subtomo/%03d/%03d_%04d_bin4.mrc" % (t, t, sn)]
            vals = names + ["%.6f" % v for v in coord + origin + ang] + [str(cl), str(hs[k])] + (["1"] if optics else [])
            f.write("\t".join(vals) + "\n")
        f.write("\n")
    kw = {} if optics else {"pixel_size": px}
    if entry == "class":
        obj = cm.RelionMotl(path, **kw)
        env.check("version_recognised", env.true() if float(obj.version) == float(version) else env.not_(env.true()))
        mdf = obj.df
    else:
        mdf = cm.relion2emmotl(path, **kw).df
    env.check("row_count", env.true() if mdf.shape[0] == len(parts) else env.not_(env.true()))
    if mdf.shape[0] != len(parts):
        return
    for i, (t, sn, cl, coord, origin, ang) in enumerate(parts):
        a = {k: float(mdf[k].iloc[i]) for k in COLS}
        env.check("position_is_rlnCoordinate_%d" % i, env.true() if all(abs(a[c] - v) <= 1e-5 for c, v in zip("xyz", coord)) else env.not_(env.true()))
        exp = [-o if version < 3.1 else -o / px for o in origin]
        env.check("shift_is_minus_origin_over_pixel_size_%d" % i, env.true() if all(abs(a["shift_" + c] - v) <= 1e-5 for c, v in zip("xyz", exp)) else env.not_(env.true()))
        Rr = R_ZYZ_intrinsic(_PlainEnv, *ang)
        Ra = R_zxz(_PlainEnv, a["phi"], a["theta"], a["psi"])
        oko = all(abs(Ra[u][v] - Rr[v][u]) <= 1e-5 for u in range(3) for v in range(3))        # zxz rotation = inverse (transpose) of the RELION rotation
        env.check("orientation_inverse_%d" % i, env.true() if oko else env.not_(env.true()))
        env.check("tomo_class_subtomo_%d" % i, env.true() if (a["tomo_id"] == t and a["class"] == cl and a["geom3"] == sn) else env.not_(env.true()))
        env.check("halfset_parity_%d" % i, env.true() if int(a["subtomo_id"]) % 2 == hs[i] % 2 else env.not_(env.true()))
    env.check("subtomo_ids_unique", env.true() if len(set(float(v) for v in mdf["subtomo_id"])) == len(parts) else env.not_(env.true()))
    if entry == "class" and reexport:
        # write the imported list back with the ORIGINAL RELION entries and read that file again: every particle keeps its
        # tomogram, its subtomogram number, its class and its pose
        p2 = env.real_path("reexport.star")
        obj.write_out(p2, use_original_entries=True, write_optics=optics)
        back = cm.RelionMotl(p2, **kw).df
        env.check("reexport_row_count", env.true() if back.shape[0] == len(parts) else env.not_(env.true()))
        if back.shape[0] == len(parts):
            for i in range(len(parts)):
                a = {k: float(mdf[k].iloc[i]) for k in COLS}
                b = {k: float(back[k].iloc[i]) for k in COLS}
                same = all(abs((a[c] + a["shift_" + c]) - (b[c] + b["shift_" + c])) <= 1e-4 for c in "xyz") and a["tomo_id"] == b["tomo_id"] and a["class"] == b["class"] and a["geom3"] == b["geom3"]
                env.check("reexport_with_original_entries_keeps_particle_%d" % i, env.true() if same else env.not_(env.true()))


class _PlainEnv:
    """float evaluation of the harness' matrix formulas"""
    mode = "conc"

    @staticmethod
    def cos(a):
        import math
        return math.cos(math.radians(float(a)))

    @staticmethod
    def sin(a):
        import math
        return math.sin(math.radians(float(a)))


def _pickc(env, name, k):
    v = env.choice(name, list(range(k)))
    if env.mode == "sym":
        from sx import core
        return int(core.concretize(v)) if core.is_sym(v) else int(v)
    return int(v)


def jobs(tier, seed):
    j = []
    for v in (3.0, 3.1, 4.0):
        j.append(("h_export", {"version": v, "ids": "a"}))
        j.append(("h_import", {"version": v, "ids": "a", "names": "numbers"}))
        j.append(("h_import", {"version": v, "ids": "b", "names": "strings"}))
        j.append(("h_roundtrip", {"version": v, "ids": "a"}))
    j += [("h_export", {"version": 3.1, "ids": "b", "tomo_format": "TS_$xxx.rec", "subtomo_format": "subtomo/T_$xxxx/T$xxxx_$yyyyy_7.40A.mrc"}),
          ("h_export", {"version": 4.0, "ids": "b", "tomo_format": "TS_$xxx", "subtomo_format": "TS_$xxx/$y"}),
          ("h_export", {"version": 3.1, "ids": "a", "via": "emmotl2relion"}),
          ("h_export", {"version": 3.1, "ids": "b", "index": "gaps", "tomo_format": "TS_$xxx.rec", "subtomo_format": "subtomo/T_$xxxx/T$xxxx_$yyyyy_7.40A.mrc"}),
          ("h_export", {"version": 4.0, "ids": "a", "index": "gaps", "tomo_format": "TS_$xxx", "subtomo_format": "TS_$xxx/$y"}),
          ("h_export", {"version": 4.0, "ids": "a", "object_version": 3.0, "tomo_format": "TS_$xxx", "subtomo_format": "TS_$xxx/$y"}),
          ("h_export", {"version": 3.0, "ids": "b", "object_version": 4.0}),
          ("h_import", {"version": 3.1, "ids": "a", "names": "strings_dirs"}),
          ("h_import", {"version": 4.0, "ids": "b", "names": "strings_dirs"}),
          ("h_import", {"version": 3.0, "ids": "a", "via": "relion2emmotl", "halfsets": False}),
          ("h_import", {"version": 3.1, "ids": "b", "via": "relion2emmotl"}),
          ("h_import", {"version": 3.0, "ids": "b", "names": "numbers", "auto_version": True}), ("h_import", {"version": 3.1, "ids": "a", "names": "strings", "auto_version": True}),
          ("h_import", {"version": 4.0, "ids": "b", "names": "strings", "auto_version": True}),
          ("h_import", {"version": 3.1, "ids": "a", "names": "strings", "drop_tomo_col": True}), ("h_import", {"version": 4.0, "ids": "b", "names": "strings", "drop_tomo_col": True}), ("h_import", {"version": 4.0, "ids": "a", "names": "strings", "via": "relion2emmotl"}),
          ("h_roundtrip", {"version": 3.1, "ids": "b", "tomo_format": "TS_$xxx.rec", "subtomo_format": "subtomo/T_$xxxx/T$xxxx_$yyyyy_7.40A.mrc"}),
          ("h_roundtrip", {"version": 4.0, "ids": "b", "tomo_format": "TS_$xxx", "subtomo_format": "TS_$xxx/$y"})]
    j += [("h_via_file", {"version": 3.1, "optics": True}), ("h_via_file", {"version": 4.0, "optics": True}), ("h_via_file", {"version": 3.0, "optics": False}),
          ("h_via_file", {"version": 3.1, "optics": False, "explicit": True}),
          ("h_import_file", {"version": 3.1, "optics": True}), ("h_import_file", {"version": 4.0, "optics": True, "entry": "relion2emmotl"}),
          ("h_import_file", {"version": 3.0, "optics": False}), ("h_import_file", {"version": 4.0, "optics": False}),
          ("h_import_file", {"version": 3.1, "optics": True, "reexport": True}), ("h_import_file", {"version": 4.0, "optics": True, "reexport": True})]
    if tier == "thorough":
        j += [("h_via_file", {"version": 4.0, "optics": False}), ("h_via_file", {"version": 4.0, "optics": True, "explicit": True})]
        for v in (3.0, 3.1, 4.0):
            j.append(("h_export", {"version": v, "ids": "b", "via": "emmotl2relion"}))
            j.append(("h_import", {"version": v, "ids": "b", "names": "numbers", "via": "relion2emmotl"}))
            j.append(("h_import", {"version": v, "ids": "a", "names": "strings", "halfsets": False}))
    return j
