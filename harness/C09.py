"""C09 — spatial filters keep exactly the particles that lie inside."""
import numpy as np
import pandas as pd
from .common import *  # noqa

PROPERTY = "C09"
EXPLANATION = ("Real Motl.remove_out_of_bounds_particles / adapt_to_trimming / clean_by_distance_to_points / clean_by_tomo_mask run on "
               "real pandas frames with symbolic positions, shifts, dimensions, trim boxes, radii; KD-tree replaced by a brute-force "
               "specification; each path's kept/removed set is compared with the analytic inside-predicate by SMT.")
ASSUMPTIONS = ["2 symbolic particles (own tomograms 1 and 2, or the same tomogram), coordinates in [-50,150], shifts in [-2,2]",
               "tomogram dimensions in [1,120] per axis and tomogram; box size integer 1..64; trim box coordinates in [-20,150]",
               "reference points: <=2, radius in (0,100]; mask 2x2x2 / 3x2x2 concrete binary masks enumerated, particle positions in [-1.9,4.9]"]
OUTSIDE = ["more than 2 symbolic particles / 2 tomograms (rows are processed independently by the code)", "float rounding (A0)",
           "mask contents are enumerated concrete masks, positions symbolic"]
BOUNDS = {"quick": {"particles": 2, "tomograms": 2, "points": 2, "masks": 2}, "thorough": {"particles": 2, "tomograms": 2, "points": 2, "masks": 6}}
EXPECTED_EXCEPTIONS = ()


def _part(env, tag, tomo, sub, rng=(-50, 150), srng=(-2, 2), shifts=True):
    p = {"tomo_id": tomo, "subtomo_id": sub, "score": 0.5, "class": 1.0, "object_id": sub, "geom1": sub * 10, "phi": 10.0 * sub, "theta": 20.0, "psi": 30.0}
    for c in ("x", "y", "z"):
        p[c] = env.real("%s_%s" % (c, tag), *rng)
        p["shift_" + c] = env.real("s%s_%s" % (c, tag), *srng) if shifts else 0.0
    return p


def _cpart(tomo, sub, pos, shift=(0.25, -0.5, 0.125)):
    """a concrete companion particle"""
    p = {"tomo_id": tomo, "subtomo_id": sub, "score": 0.5, "class": 1.0, "object_id": sub, "geom1": sub * 10, "phi": 10.0 * sub, "theta": 20.0, "psi": 30.0}
    for c, v, sh in zip("xyz", pos, shift):
        p[c], p["shift_" + c] = float(v), float(sh)
    return p


def _kept(df, sub):
    return any(float(v) == sub for v in df["subtomo_id"].tolist())


def _find(df, sub):
    for i in range(df.shape[0]):
        if float(df["subtomo_id"].iloc[i]) == sub:
            return row(df, i)
    return None


def _num_arr(env, vals):
    if env.mode == "sym":
        a = np.empty((len(vals), len(vals[0])), dtype=object)
        for i, r in enumerate(vals):
            for j, v in enumerate(r):
                a[i, j] = v
        return a
    return np.array(vals, dtype=float)


def _picki(env, name, k):
    v = env.choice(name, list(range(k)))
    if env.mode == "sym":
        from sx import core
        return int(core.concretize(v)) if core.is_sym(v) else int(v)
    return int(v)


def h_out_of_bounds(env, boundary_type="center", same_tomo=False, dims_kind="Nx4", index="default"):
    cm = env.module("cryomotl")
    rows = [_part(env, "a", 1.0, 1.0), _part(env, "b", 1.0 if same_tomo else 2.0, 2.0)]
    if dims_kind in ("com", "txt"):
        rows[1] = _cpart(1.0, 2.0, (150.0, 50.0, 25.0))          # concrete companion: between the x and y sizes of a non-square tomogram
    m = mk_motl(env, cm, rows)
    if index == "gaps":
        m.df.index = [3, 1]            # row labels of a list that went through remove_feature / adapt_to_trimming / a subset without reset
    elif index == "swapped":
        m.df.index = [1, 0]
    before = [row(m.df, i) for i in range(2)]
    d = [[env.real("d%d%s" % (t, ax), 1, 120) for ax in "xyz"] for t in (1, 2)]
    dims = _num_arr(env, [[1.0] + d[0], [2.0] + d[1]])
    if dims_kind == "Nx4_df":
        dims = pd.DataFrame(dims)
    elif dims_kind in ("com", "txt"):
        # dimensions read from a file (concrete numbers): an IMOD tilt.com (FULLIMAGE = x y, THICKNESS = z) or a text table
        assert same_tomo
        cx, cy, cz = [200.0, 120.0, 64.0][_picki(env, "perm", 3):] + [200.0, 120.0, 64.0][:_picki(env, "perm", 3)]
        d = [[cx, cy, cz], [cx, cy, cz]]
        if dims_kind == "com":
            dims = env.real_path("tilt.com")
            open(dims, "w").write("# Command file to run Tilt\n$tilt -StandardInput\nInputProjections ts.ali\nOutputFile ts_full.rec\nIMAGEBINNED 1\nFULLIMAGE %d %d\nTHICKNESS %d\nSHIFT 0.0 0.0\n$if (-e ./savework) ./savework\n" % (cx, cy, cz))
        else:
            dims = env.real_path("dims.txt")
            open(dims, "w").write("1 %d %d %d\n" % (cx, cy, cz))
    elif dims_kind in ("1x3", "1x3_list"):
        # documented input form for a single tomogram (ioutils.dimensions_load): x y z without a tomogram column
        assert same_tomo
        dims = _num_arr(env, [d[0]]) if dims_kind == "1x3" else list(d[0])
    kw = {}
    b = 0
    if boundary_type == "whole":
        box = env.integer("box", 1, 64)
        kw["box_size"] = box
        # b = ceil(box/2): the convention of the anchored mechanism
        half = env.integer("half", 0, 40)
        env.assume(env.and_(env.le(box, half * 2), env.lt(half * 2, box + 2)))
        b = half
    m.remove_out_of_bounds_particles(dims, boundary_type=boundary_type, **kw)
    for i, r in enumerate(before):
        sub = float(i + 1)
        dd = d[0] if (i == 0 or same_tomo) else d[1]
        pos = [r["x"] + r["shift_x"], r["y"] + r["shift_y"], r["z"] + r["shift_z"]]
        lower = env.and_(*[env.ge(p - b, 0) for p in pos])
        upper = env.and_(*[env.lt(p + b, dim) for p, dim in zip(pos, dd)])
        kept = _kept(m.df, sub)
        if kept:
            env.check("kept_implies_inside_lower_%d" % i, lower)
            env.check("kept_implies_inside_upper_%d" % i, upper)
            env.check("survivor_unchanged_%d" % i, others_unchanged(env, r, _find(m.df, sub), set()))
        else:
            env.check("removed_implies_outside_%d" % i, env.not_(env.and_(lower, upper)))
    env.check("no_extra_rows", env.true() if m.df.shape[0] == sum(_kept(m.df, float(i + 1)) for i in range(2)) else env.not_(env.true()))


def h_adapt_to_trimming(env, reuse=False):
    cm = env.module("cryomotl")
    rows = [_part(env, "a", 1.0, 1.0), _part(env, "b", 2.0, 2.0)]
    m = mk_motl(env, cm, rows)
    before = [row(m.df, i) for i in range(2)]
    st = [env.real("start%s" % ax, -20, 150) for ax in "xyz"]
    en = [env.real("end%s" % ax, -20, 150) for ax in "xyz"]
    env.assume(env.and_(*[env.le(a, b) for a, b in zip(st, en)]))
    A, B = (objcol(st) if env.mode == "sym" else np.array(st)), (objcol(en) if env.mode == "sym" else np.array(en))
    if reuse:
        # the same start / end arrays serve several lists of one trimmed tomogram: they are inputs, not scratch space
        other = cm.Motl(cm.Motl.create_empty_motl_df())          # an empty list of the same tomogram: no row decisions, same array handling
        other.adapt_to_trimming(A, B)
        env.check("callers_trim_arrays_unchanged", env.and_(*[env.eq(u, v) for u, v in zip(list(A) + list(B), st + en)]))
    m.adapt_to_trimming(A, B)
    for i, r in enumerate(before):
        sub = float(i + 1)
        new = [r[c] - (s - 1) for c, s in zip("xyz", st)]
        inside = env.and_(*[env.and_(env.ge(n, 1), env.le(n, e - s + 1)) for n, s, e in zip(new, st, en)])
        if _kept(m.df, sub):
            a = _find(m.df, sub)
            env.check("kept_implies_inside_%d" % i, inside)
            env.check("relative_position_%d" % i, vec_eq(env, [a["x"], a["y"], a["z"]], new))
            env.check("survivor_unchanged_%d" % i, others_unchanged(env, r, a, {"x", "y", "z"}))
        else:
            env.check("removed_implies_outside_%d" % i, env.not_(inside))


def h_clean_by_points(env, same_tomo=True, inplace=True, npoints=2):
    cm = env.module("cryomotl")
    rows = [_part(env, "a", 1.0, 1.0), _part(env, "b", 1.0 if same_tomo else 2.0, 2.0)]
    m = mk_motl(env, cm, rows)
    before = [row(m.df, i) for i in range(2)]
    pts = []
    for k in range(npoints):
        pts.append({"x": env.real("px%d" % k, -50, 150), "y": env.real("py%d" % k, -50, 150), "z": env.real("pz%d" % k, -50, 150),
                    "tomo_id": 1.0 if k == 0 else 2.0})
    if env.mode == "sym":
        pdf = pd.DataFrame({c: objcol([p[c] for p in pts]) for c in ("x", "y", "z", "tomo_id")})
    else:
        pdf = pd.DataFrame({c: np.array([float(p[c]) for p in pts]) for c in ("x", "y", "z", "tomo_id")})
    rad = env.real("radius", 0.001, 100)
    if inplace:
        m.clean_by_distance_to_points(pdf, rad)
        out = m
    else:
        out = m.clean_by_distance_to_points(pdf, rad, inplace=False)
    for i, r in enumerate(before):
        sub = float(i + 1)
        pos = [r["x"] + r["shift_x"], r["y"] + r["shift_y"], r["z"] + r["shift_z"]]
        near = []
        for p in pts:
            if p["tomo_id"] != r["tomo_id"]:
                continue
            d2 = sum((a - p[c]) * (a - p[c]) for a, c in zip(pos, "xyz"))
            near.append(env.le(d2, rad * rad))
        near = env.or_(*near)
        if _kept(out.df, sub):
            env.check("kept_implies_far_%d" % i, env.not_(near))
            env.check("survivor_unchanged_%d" % i, others_unchanged(env, r, _find(out.df, sub), set()))
        else:
            env.check("removed_implies_near_%d" % i, near)
    if not inplace:
        env.check("original_untouched", env.true() if m.df.shape[0] == 2 else env.not_(env.true()))


MASKS = {
    "m222a": np.array([[[1, 0], [0, 1]], [[0, 0], [1, 1]]]),
    "m222b": np.array([[[0, 1], [1, 0]], [[1, 1], [0, 0]]]),
    "m322": np.array([[[1, 0], [0, 0]], [[0, 1], [1, 0]], [[1, 1], [0, 1]]]),
    "m223": np.array([[[1, 0, 1], [0, 1, 0]], [[0, 0, 1], [1, 1, 0]]]),
    "ones": np.ones((2, 2, 2), dtype=int),
    "zeros": np.zeros((2, 2, 2), dtype=int),
}


def h_clean_by_tomo_mask(env, mask="m222a", same_tomo=True, outside_first=True, outside_kind="high"):
    cm = env.module("cryomotl")
    rows = [_part(env, "a", 1.0, 1.0, rng=(-1.9, 3.9), srng=(-0.5, 0.5), shifts=False)]
    # a concrete particle beyond the mask volume *before* a concrete one inside it (index mapping), order as given
    outside = {"tomo_id": 1.0 if same_tomo else 2.0, "subtomo_id": 2.0, "x": 5.2 if outside_kind == "high" else -1.4, "y": 0.3, "z": 0.4, "score": 0.2, "object_id": 2.0}
    inside = {"tomo_id": 1.0, "subtomo_id": 3.0, "x": 1.0, "y": 0.0, "z": 1.0, "shift_x": 0.25, "score": 0.1, "object_id": 3.0}
    rows = ([outside] + rows + [inside]) if outside_first else (rows + [outside, inside])
    for k, r_ in enumerate(rows):
        r_["subtomo_id"] = float(k + 1)
    m = mk_motl(env, cm, rows)
    before = [row(m.df, i) for i in range(3)]
    M = MASKS[mask].astype(float)
    tomos = [1.0] if same_tomo else [1.0, 2.0]
    m.clean_by_tomo_mask(list(tomos), M)
    shp = M.shape
    for i, r in enumerate(before):
        sub = float(i + 1)
        pos = [r["x"] + r["shift_x"], r["y"] + r["shift_y"], r["z"] + r["shift_z"]]
        # removed  <=>  trunc(pos) indexes a voxel of the mask volume and that voxel is 0
        on_zero = []
        for ix in range(shp[0]):
            for iy in range(shp[1]):
                for iz in range(shp[2]):
                    if M[ix, iy, iz] == 0:
                        on_zero.append(env.and_(_trunc_is(env, pos[0], ix), _trunc_is(env, pos[1], iy), _trunc_is(env, pos[2], iz)))
        on_zero = env.or_(*on_zero)
        if _kept(m.df, sub):
            env.check("kept_implies_not_on_zero_voxel_%d" % i, env.not_(on_zero))
            env.check("survivor_unchanged_%d" % i, others_unchanged(env, r, _find(m.df, sub), set()))
        else:
            env.check("removed_implies_on_zero_voxel_%d" % i, on_zero)


def _trunc_is(env, p, k):
    """int(p) == k for C truncation toward zero"""
    if k == 0:
        return env.and_(env.gt(p, -1), env.lt(p, 1))
    return env.and_(env.ge(p, k), env.lt(p, k + 1)) if k > 0 else env.and_(env.gt(p, k - 1), env.le(p, k))


def jobs(tier, seed):
    j = [
        ("h_out_of_bounds", {"boundary_type": "center"}),
        ("h_out_of_bounds", {"boundary_type": "whole"}),
        ("h_out_of_bounds", {"boundary_type": "center", "same_tomo": True, "dims_kind": "Nx4_df"}),
        ("h_out_of_bounds", {"boundary_type": "center", "same_tomo": True, "dims_kind": "1x3"}), ("h_out_of_bounds", {"boundary_type": "center", "same_tomo": True, "dims_kind": "1x3_list"}),
        ("h_out_of_bounds", {"boundary_type": "center", "same_tomo": True, "dims_kind": "com"}), ("h_out_of_bounds", {"boundary_type": "center", "same_tomo": True, "dims_kind": "txt"}),
        ("h_out_of_bounds", {"boundary_type": "center", "index": "swapped"}), ("h_out_of_bounds", {"boundary_type": "center", "same_tomo": True, "index": "gaps"}),
        ("h_adapt_to_trimming", {}), ("h_adapt_to_trimming", {"reuse": True}),
        ("h_clean_by_points", {"same_tomo": True}),
        ("h_clean_by_points", {"same_tomo": False, "inplace": False}),
        ("h_clean_by_points", {"same_tomo": False, "npoints": 1}),     # a tomogram without any reference point
        ("h_clean_by_tomo_mask", {"mask": "m222a", "same_tomo": True}),
        ("h_clean_by_tomo_mask", {"mask": "m322", "same_tomo": False, "outside_first": False, "outside_kind": "low"}),
    ]
    if tier == "thorough":
        j += [("h_out_of_bounds", {"boundary_type": "whole", "same_tomo": True}), ("h_out_of_bounds", {"boundary_type": "whole", "same_tomo": True, "dims_kind": "1x3_list"}),
              ("h_out_of_bounds", {"boundary_type": "whole", "same_tomo": True, "index": "gaps"}),
              ("h_clean_by_points", {"same_tomo": True, "inplace": False}),
              ("h_clean_by_tomo_mask", {"mask": "m222b", "same_tomo": False, "outside_kind": "low"}),
              ("h_clean_by_tomo_mask", {"mask": "m223", "same_tomo": True, "outside_first": False}),
              ("h_clean_by_tomo_mask", {"mask": "ones", "same_tomo": True}),
              ("h_clean_by_tomo_mask", {"mask": "zeros", "same_tomo": False})]
    return j
