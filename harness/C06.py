"""C06 — rotation geometry primitives agree with SO(3) ground truth."""
import math
import numpy as np
import pandas as pd
from .common import *  # noqa

PROPERTY = "C06"
EXPLANATION = ("Real geom.angular_distance / cone_distance / inplane_distance / cone_inplane_distance / compare_rotations / euler_angles_to_normals / "
               "normals_to_euler_angles / visualize_rotations / visualize_angles with scipy Rotation replaced by the polynomial rotation algebra "
               "(as_quat / as_euler by their contracts), arccos uninterpreted (range, acos(1)=0 only there, monotone about 0), arctan2/sqrt by contracts. "
               "Oracles are stated on rotation matrices built by independent formulas in the harness.")
ASSUMPTIONS = ["rotations given as zxz Euler triples of arbitrary angles (every rotation, incl. gimbal lock); batches of 1..3 orientations",
               "normals: arbitrary non-zero real vectors in [-10,10]^3, case-split on axis-aligned and +-z",
               "arccos is an uninterpreted function with its contract: range [0,pi], acos(1)=0 only there, sign split at 0, and (triangle job only) the addition law acos(w) <= acos(u)+acos(v) <=> w >= uv - sqrt((1-u^2)(1-v^2)) for u,v,w in [0,1]",
               "lemmas proved by the solver from hints in the same run and then instantiated (coverage.lemmas): quaternion/trace identity, Cauchy-Schwarz and the Gram determinant for unit quaternions, orthogonality of Euler matrices"]
OUTSIDE = ["c_symmetry > 1 branches (np.mod on angle values)",
           "in-plane distance 'vanishes for equal orientations' is decided for the same rotation object / same Euler triple (as_euler is a function), not for two different triples of one rotation"]
WITNESS_ONLY = ["float-level: the cone distance of nearly parallel / antiparallel axes equals the tilt within 2e-6 degrees (h_cone, concrete run, tilts 1e-3 .. 179.99)", "float-only: equal rotations written with phi / phi+360 (opposite-sign quaternions) have distance 0 and never NaN - evaluated by the concrete run on the 45-degree Euler lattice (h_angular_equal); over the reals the clause is implied by zero_for_equal_rotations"]
BOUNDS = {"quick": {"batch": "1..2"}, "thorough": {"batch": "1..3"}}
EXPECTED_EXCEPTIONS = ()
OPTS = {"qtimeout": 6.0, "otimeout": 40.0}


def _false(env):
    return env.not_(env.true())


def _strip_abs_cap(a):
    """square of the acos argument min(|x|, 1): returned as the term min(x*x, 1) (|x|^2 = x^2; capping commutes with squaring)"""
    import z3
    def strip_abs(t):
        if z3.is_app(t) and t.decl().kind() == z3.Z3_OP_ITE:
            c0, t1, t2 = t.children()
            if z3.simplify(t1 + t2).eq(z3.RealVal(0)):
                return t1
        return None
    inner = strip_abs(a)
    if inner is not None:
        return inner * inner
    if z3.is_app(a) and a.decl().kind() == z3.Z3_OP_ITE:
        c0, t1, t2 = a.children()
        for x, one in ((t1, t2), (t2, t1)):
            if z3.is_rational_value(one) and one.numerator_as_long() == one.denominator_as_long():
                inner = strip_abs(x)
                if inner is not None:
                    sq = inner * inner
                    return z3.If(sq <= 1, sq, z3.RealVal(1))
    return a * a


def _tri(env, tag):
    return [env.angle("%s_%s" % (n, tag)) for n in ("phi", "theta", "psi")]


def _arr(env, rows):
    if env.mode == "sym":
        a = np.empty((len(rows), 3), dtype=object)
        for i, r in enumerate(rows):
            for j, v in enumerate(r):
                a[i, j] = v
        return a
    return np.array([[float(v) for v in r] for r in rows])


def _trace_rel(env, A, B):
    """trace(A^T B)"""
    return sum(A[k][i] * B[k][i] for i in range(3) for k in range(3))


def _cos_half_sq(env, ang_deg):
    """cos^2(angle/2) for the returned angular distance (degrees)"""
    if env.mode == "sym":
        ok = hasattr(ang_deg, "arg") and getattr(ang_deg, "deg", False) and ang_deg.k == 2
        if not ok:
            return None
        from sx import core
        import z3
        return core.SNum(_strip_abs_cap(ang_deg.arg))
    return math.cos(math.radians(float(ang_deg)) / 2) ** 2


def h_angular(env, n=1, compose=None):
    g = env.module("geom")
    t1 = [_tri(env, "a%d" % i) for i in range(n)]
    t2 = [_tri(env, "b%d" % i) for i in range(n)]
    R1 = [R_zxz(env, *t) for t in t1]
    R2 = [R_zxz(env, *t) for t in t2]
    if compose is None:
        ang, dist = g.angular_distance(_arr(env, t1), _arr(env, t2))
        A, B = R1, R2
    else:
        q = _tri(env, "q")
        Q = R_zxz(env, *q)
        srot = g.srot
        r1 = srot.from_euler("zxz", _arr(env, t1), degrees=True)
        r2 = srot.from_euler("zxz", _arr(env, t2), degrees=True)
        rq = srot.from_euler("zxz", _arr(env, [q])[0], degrees=True)
        if compose == "left":
            ang, dist = g.angular_distance(rq * r1, rq * r2)
            A, B = [mat_mul(Q, M) for M in R1], [mat_mul(Q, M) for M in R2]
        else:
            ang, dist = g.angular_distance(r1 * rq, r2 * rq)
            A, B = [mat_mul(M, Q) for M in R1], [mat_mul(M, Q) for M in R2]
        # invariance = (value obligation below, stated for the composed rotations) + (Q is orthogonal) + the generic
        # trace lemma h_trace_lemma:  Q^T Q = I  =>  trace((QA)^T QB) = trace(A^T B)  (resp. right composition)
        QtQ = mat_mul(mat_T(Q), Q) if compose == "left" else mat_mul(Q, mat_T(Q))
        env.check("common_rotation_is_orthogonal", env.and_(*[env.eq(QtQ[a][b], 1.0 if a == b else 0.0) for a in range(3) for b in range(a, 3)]))
    env.check("one_distance_per_pair", env.true() if len(ang) == n else _false(env))
    for i in range(n):
        ch = _cos_half_sq(env, ang[i])
        env.check("distance_is_deg_2_acos_of_abs_%d" % i, env.true() if ch is not None else _false(env))
        if ch is None:
            continue
        # rotation angle w of the relative rotation: trace = 1 + 2 cos w  <=>  cos^2(w/2) = (1 + trace)/4
        env.check("is_rotation_angle_of_relative_rotation_%d" % i, env.eq(ch, (1 + _trace_rel(env, A[i], B[i])) / 4))
        env.check("range_0_180_%d" % i, env.and_(env.ge(ang[i], 0.0), env.le(ang[i], 180.0)))


def h_triangle(env, via="arrays"):
    """Triangle inequality d(A,C) <= d(A,B) + d(B,C) for three arbitrary orientations.  Decided from (1) the contract of
    arccos (addition law, see SymEnv.acos_addition_law), (2) the Gram-determinant lemma for the three unit quaternions
    (proved by the solver from hints, sx/rotation.py) and Cauchy-Schwarz, (3) a final non-linear query over the three
    named inner products.  The three distances come from three calls of the real angular_distance."""
    g = env.module("geom")
    tA, tB, tC = _tri(env, "a"), _tri(env, "b"), _tri(env, "c")
    if via == "arrays":
        a_, b_, c_ = _arr(env, [tA]), _arr(env, [tB]), _arr(env, [tC])
    else:
        srot = g.srot
        a_, b_, c_ = [srot.from_euler("zxz", _arr(env, [t]), degrees=True) for t in (tA, tB, tC)]
    dab = g.angular_distance(a_, b_)[0][0]
    dbc = g.angular_distance(b_, c_)[0][0]
    dac = g.angular_distance(a_, c_)[0][0]
    env.acos_addition_law(dab, dbc, dac)
    slack = 1e-6 if env.mode == "conc" else 0.0         # float evaluation of an equality case (B on the geodesic A-C, A = B, ...)
    env.check("triangle_inequality", env.le(dac, dab + dbc + slack))
    env.check("triangle_inequality_permuted", env.le(dab, dac + dbc + slack) if env.mode == "conc" else env.true())


def h_trace_lemma(env, side="left"):
    """Generic lemma behind the invariance clauses, over arbitrary real matrices A, B and an orthogonal Q.
    The solvers do not find it unaided (60 s); the proof is given as hints: each orthogonality equation times a
    monomial A_mi*B_ni (valid consequences of the hypotheses), after which linear arithmetic over monomials closes it."""
    def mat(nm):
        return [[env.real("%s%d%d" % (nm, i, j), -2, 2) for j in range(3)] for i in range(3)]
    A, B, Q = mat("a"), mat("b"), mat("q")
    G = mat_mul(mat_T(Q), Q) if side == "left" else mat_mul(Q, mat_T(Q))
    env.assume(env.and_(*[env.eq(G[m][n], 1.0 if m == n else 0.0) for m in range(3) for n in range(3)]))
    if env.mode == "sym":
        for m in range(3):
            for n in range(3):
                for i in range(3):
                    mono = (A[m][i] * B[n][i]) if side == "left" else (A[i][m] * B[i][n])
                    env.assume(env.eq((G[m][n] - (1.0 if m == n else 0.0)) * mono, 0.0))
    QA, QB = (mat_mul(Q, A), mat_mul(Q, B)) if side == "left" else (mat_mul(A, Q), mat_mul(B, Q))
    env.check("trace_invariant_under_common_%s_orthogonal_factor" % side, env.eq(_trace_rel(env, QA, QB), _trace_rel(env, A, B)))


def h_angular_near(env, delta=0.02):
    """near-identical orientations (the second differs by a small in-plane turn): the distance is that small angle, not 0"""
    g = env.module("geom")
    t1 = _tri(env, "a")
    if env.mode == "sym":
        t2 = [t1[0] + delta, t1[1], t1[2]]
    else:
        t2 = [t1[0] + delta, t1[1], t1[2]]
    ang, dist = g.angular_distance(_arr(env, [t1]), _arr(env, [t2]))
    R1, R2 = R_zxz(env, *t1), R_zxz(env, *t2)
    ch = _cos_half_sq(env, ang[0])
    if env.mode == "sym":
        if ch is not None:
            env.check("is_rotation_angle_of_relative_rotation", env.eq(ch, (1 + _trace_rel(env, R1, R2)) / 4))
    else:
        tr = float(_trace_rel(env, R1, R2))
        expect = math.degrees(2 * math.acos(min(1.0, math.sqrt(max(0.0, (1 + tr) / 4)))))
        env.check("near_identical_distance_is_the_small_angle", abs(float(ang[0]) - expect) < 2e-3 and abs(expect - delta) < 2e-3)


def h_angular_equal(env):
    g = env.module("geom")
    t = _tri(env, "a")
    ang, dist = g.angular_distance(_arr(env, [t]), _arr(env, [t]))
    env.check("zero_for_equal_rotations", env.eq(ang[0], 0.0) if env.mode == "sym" else abs(float(ang[0])) < 1e-5)
    if env.mode == "conc":
        # float-only clause (over the reals |<q,q>| = 1 exactly): the same rotation written with phi and phi+360, or as the
        # negated quaternion, must give 0 and never NaN.  Evaluated by the concrete run on the 45-degree Euler lattice.
        lat = np.array([[a, b, c] for a in range(-180, 180, 45) for b in range(0, 181, 45) for c in range(-180, 180, 45)], dtype=float)
        for shift in ([360.0, 0.0, 0.0], [0.0, 0.0, -360.0], [0.0, 0.0, 0.0]):
            a2, _ = g.angular_distance(lat, lat + np.array(shift))
            a2 = np.asarray(a2, dtype=float)
            env.check("lattice_equal_rotations_finite_and_zero", bool(np.all(np.isfinite(a2)) and np.all(np.abs(a2) < 1e-4)))


def h_angular_symmetric(env):
    g = env.module("geom")
    t1, t2 = _tri(env, "a"), _tri(env, "b")
    a12, _ = g.angular_distance(_arr(env, [t1]), _arr(env, [t2]))
    a21, _ = g.angular_distance(_arr(env, [t2]), _arr(env, [t1]))
    c1, c2 = _cos_half_sq(env, a12[0]), _cos_half_sq(env, a21[0])
    if c1 is None or c2 is None:
        env.check("distance_is_deg_2_acos_of_abs", _false(env))
        return
    env.check("symmetric", env.eq(c1, c2))


def h_cone(env, n=1, via="direct"):
    g = env.module("geom")
    t1 = [_tri(env, "a%d" % i) for i in range(n)]
    t2 = [_tri(env, "b%d" % i) for i in range(n)]
    srot = g.srot
    if via == "direct":
        r1 = srot.from_euler("zxz", _arr(env, t1), degrees=True)
        r2 = srot.from_euler("zxz", _arr(env, t2), degrees=True)
        cone = g.cone_distance(r1, r2)
    elif via == "compare_cone":            # the selector of compare_rotations (forwarded by the neighbour analysis)
        cone = g.compare_rotations(_arr(env, t1), _arr(env, t2), rotation_type="cone_distance")
    else:
        cone = g.compare_rotations(_arr(env, t1), _arr(env, t2))[1]
    if env.mode == "conc" and via == "direct":
        # float-level clause: nearly parallel / nearly antiparallel axes (arccos is steep at +-1): the reported angle is the
        # tilt itself.  Evaluated by the concrete run only.
        for t in (1e-3, 1e-2, 0.1, 1.0, 179.0, 179.9, 179.99):
            ra = srot.from_euler("zxz", np.array([[20.0, 35.0, -70.0]]), degrees=True)
            rb = ra * srot.from_euler("zxz", np.array([[0.0, t, 0.0]]), degrees=True)
            got = float(np.asarray(g.cone_distance(ra, rb), dtype=float)[0])
            env.check("small_tilt_cone_is_the_tilt", abs(got - t) <= 2e-6)
    for i in range(n):
        z1 = [R_zxz(env, *t1[i])[k][2] for k in range(3)]
        z2 = [R_zxz(env, *t2[i])[k][2] for k in range(3)]
        dot = sum(a * b for a, b in zip(z1, z2))
        if env.mode == "sym":
            c = cone[i]
            ok = hasattr(c, "arg") and getattr(c, "deg", False) and c.k == 1
            env.check("cone_is_deg_acos_%d" % i, env.true() if ok else _false(env))
            if ok:
                from sx import core
                # the code clips the cosine to [-1,1] before arccos (numerical safety; |<z1,z2>| <= 1 for unit vectors)
                clipped = env.ite(env.gt(dot, 1.0), 1.0, env.ite(env.lt(dot, -1.0), -1.0, dot))
                env.check("cone_is_angle_between_z_axes_%d" % i, env.eq(core.SNum(c.arg), clipped))
        else:
            env.check("cone_is_angle_between_z_axes_%d" % i, env.eq(math.cos(math.radians(float(cone[i]))), max(-1.0, min(1.0, float(dot)))))
        env.check("cone_range_%d" % i, env.and_(env.ge(cone[i], 0.0), env.le(cone[i], 180.0)))


def _tri_values(env, tag):
    return [env.angle_value("phi_" + tag), env.angle_value("theta_" + tag, 0, 180), env.angle_value("psi_" + tag)]


def h_inplane(env, equal=False, by_value=False):
    g = env.module("geom")
    t1 = _tri_values(env, "a") if by_value else _tri(env, "a")
    t2 = t1 if equal else (_tri_values(env, "b") if by_value else _tri(env, "b"))
    srot = g.srot
    r1 = srot.from_euler("zxz", _arr(env, [t1]), degrees=True)
    r2 = r1 if equal else srot.from_euler("zxz", _arr(env, [t2]), degrees=True)
    d = g.inplane_distance(r1, r2)
    env.check("inplane_range_0_180", env.and_(env.ge(d[0], 0.0), env.le(d[0], 180.0)))
    if by_value and not equal and env.mode == "sym":
        d21 = g.inplane_distance(r2, r1)
        env.check("inplane_symmetric", env.eq(d[0], d21[0]))
    if equal:
        env.check("inplane_zero_for_equal_orientations", env.eq(d[0], 0.0))
    c, ip = g.cone_inplane_distance(_arr(env, [t1]), _arr(env, [t2]))
    env.check("cone_inplane_pair_ranges", env.and_(env.ge(ip[0], 0.0), env.le(ip[0], 180.0), env.ge(c[0], 0.0), env.le(c[0], 180.0)))


def h_selectors(env):
    """compare_rotations(rotation_type=...) returns exactly the element of the ('all') triple it names"""
    g = env.module("geom")
    t1, t2 = _tri(env, "a"), _tri(env, "b")
    A1, A2 = _arr(env, [t1]), _arr(env, [t2])
    full = g.compare_rotations(A1, A2)
    for k, sel in enumerate(("angular_distance", "cone_distance", "in_plane_distance")):
        one = g.compare_rotations(A1, A2, rotation_type=sel)
        env.check("selector_%s_is_element_%d_of_the_triple" % (sel, k), env.eq(one[0], full[k][0]))
    raised = False
    try:
        g.compare_rotations(A1, A2, rotation_type="something_else")
    except Exception:
        raised = True
    env.check("unknown_selector_is_rejected", env.true() if raised else _false(env))


def h_normals_from_angles(env, n=2, after_scaled_call=False):
    g = env.module("geom")
    ts = [_tri(env, "a%d" % i) for i in range(n)]
    if after_scaled_call:
        # earlier calls with another sphere radius in the same process must leave nothing behind
        rad = env.real("radius", 0.25, 4)
        r0 = g.srot.from_euler("zxz", _arr(env, ts), degrees=True)
        p0 = g.visualize_rotations(r0, plot_rotations=False, radius=rad)
        for i in range(n):
            R = R_zxz(env, *ts[i])
            env.check("scaled_image_of_z_axis_%d" % i, vec_eq(env, [p0[i][k] for k in range(3)], [R[k][2] * rad for k in range(3)]))
        g.visualize_rotations(r0, plot_rotations=False, radius=0.5)
    out = g.euler_angles_to_normals(_arr(env, ts))
    env.check("one_vector_per_orientation", env.true() if tuple(out.shape) == (n, 3) else _false(env))
    if tuple(out.shape) != (n, 3):
        return
    for i in range(n):
        R = R_zxz(env, *ts[i])
        env.check("is_image_of_z_axis_%d" % i, vec_eq(env, [out[i][k] for k in range(3)], [R[k][2] for k in range(3)]))
        env.check("unit_length_%d" % i, env.eq(sum(out[i][k] * out[i][k] for k in range(3)), 1.0))
    pts = g.visualize_angles(_arr(env, ts), plot_rotations=False)
    for i in range(n):
        R = R_zxz(env, *ts[i])
        env.check("visualize_angles_z_axis_image_%d" % i, vec_eq(env, [pts[i][k] for k in range(3)], [R[k][2] for k in range(3)]))


def h_angles_from_normals(env, case="generic", order="zxz", frame=None):
    g = env.module("geom")
    nx, ny, nz = env.real("nx", -10, 10), env.real("ny", -10, 10), env.real("nz", -10, 10)
    if case == "generic":
        env.assume(env.and_(env.not_(env.eq(nx, 0)), env.not_(env.eq(ny, 0))))
    elif case == "z":
        nx, ny = 0.0, 0.0
        env.assume(env.not_(env.eq(nz, 0)))
    elif case == "xz_plane":
        ny = 0.0
        env.assume(env.not_(env.eq(nx, 0)))
    elif case == "y_axis":
        nx, nz = 0.0, 0.0
        env.assume(env.not_(env.eq(ny, 0)))
    nrm = [nx, ny, nz]
    second = [0.0, 3.0, -4.0]
    if frame is None:
        a = g.normals_to_euler_angles(_arr(env, [nrm, second]), output_order=order)
    else:
        # normals handed over as a table with named columns: the names decide, not the positions
        cols = {"xyz": ["x", "y", "z"], "zyx": ["z", "y", "x"], "id_first": ["vertex_id", "x", "y", "z"], "extra": ["y", "curvature", "z", "x"]}[frame]
        data = {"x": [nrm[0], second[0]], "y": [nrm[1], second[1]], "z": [nrm[2], second[2]], "vertex_id": [11.0, 12.0], "curvature": [0.5, -0.5]}
        if env.mode == "sym":
            df = pd.DataFrame({c: objcol(data[c]) for c in cols}, columns=cols)
        else:
            df = pd.DataFrame({c: np.array([float(v) for v in data[c]]) for c in cols}, columns=cols)
        a = g.normals_to_euler_angles(df, output_order=order)
    lam = env.sqrt(sum(v * v for v in nrm))
    for i, vec in enumerate([nrm, second]):
        if i == 1:
            lam_i = 5.0
        else:
            lam_i = lam
        if order == "zxz":
            phi, theta, psi = a[i][0], a[i][1], a[i][2]
        else:
            phi, psi, theta = a[i][0], a[i][1], a[i][2]
        R = R_zxz(env, phi, theta, psi)
        if i == 1 and env.mode == "sym":
            continue     # concrete companion row: its angles are floating-point constants; checked on the concrete run
        env.check("z_axis_is_normalised_normal_%d" % i, env.and_(*[env.eq(R[k][2] * lam_i, vec[k]) for k in range(3)]))


def jobs(tier, seed):
    j = [("h_angular", {"n": 1}), ("h_angular", {"n": 2}), ("h_angular", {"n": 1, "compose": "left"}), ("h_angular", {"n": 1, "compose": "right"}),
         ("h_trace_lemma", {"side": "left"}), ("h_trace_lemma", {"side": "right"}), ("h_triangle", {"via": "arrays"}), ("h_triangle", {"via": "rotations"}),
         ("h_angular_equal", {}), ("h_angular_near", {"delta": 0.02}), ("h_angular_symmetric", {}), ("h_cone", {"n": 1}), ("h_cone", {"n": 2}), ("h_cone", {"n": 1, "via": "compare_cone"}), ("h_cone", {"n": 1, "via": "compare_all"}), ("h_selectors", {}), ("h_inplane", {}), ("h_inplane", {"equal": True}), ("h_inplane", {"by_value": True}),
         ("h_normals_from_angles", {"n": 1}), ("h_normals_from_angles", {"n": 2}), ("h_normals_from_angles", {"n": 1, "after_scaled_call": True}),
         ("h_angles_from_normals", {"case": "generic"}), ("h_angles_from_normals", {"case": "z"}), ("h_angles_from_normals", {"case": "xz_plane"}),
         ("h_angles_from_normals", {"case": "y_axis"}), ("h_angles_from_normals", {"case": "generic", "frame": "zyx"}),
         ("h_angles_from_normals", {"case": "generic", "frame": "id_first", "order": "zzx"}), ("h_angles_from_normals", {"case": "xz_plane", "frame": "extra"}), ("h_angles_from_normals", {"case": "generic", "order": "zzx"})]
    if tier == "thorough":
        j += [("h_angular", {"n": 3}), ("h_normals_from_angles", {"n": 3}), ("h_cone", {"n": 3})]
    return j
