"""C08 — particle-list set algebra and identifier discipline."""
import numpy as np
import pandas as pd
from .common import *  # noqa

PROPERTY = "C08"
EXPLANATION = ("Real Motl.get_motl_subset / remove_feature / split_by_feature / get_motl_intersection / drop_duplicates / "
               "merge_and_drop_duplicates / merge_and_renumber / renumber_particles / renumber_objects_sequentially on real pandas frames. "
               "Identifier fields range over declared finite domains and are fixed by solver-decided forks (every assignment in the "
               "domain is a path); all other fields are free solver variables, so 'no other field changed' is an SMT equality. Oracle: "
               "a pure-Python row-set model.")
ASSUMPTIONS = ["N <= 3 rows per list (two lists of 2 for binary operations)", "tomo_id in {1,2,3}, object_id in {1,2,5}, subtomo_id in {1,2,3}, class in {1,2}, score in {0.25,0.5,0.75}",
               "index labels: default 0..N-1 or labels with gaps (pre-states reachable after remove_feature / split_by_feature)",
               "payload fields (x, shift_x, geom4, phi) arbitrary reals"]
OUTSIDE = ["operation histories longer than 3 (quick) / 4-5 (thorough: every sequence over the nine operations of length 4, five operations of length 5) are covered only by the inductive argument (each operation is checked from an arbitrary valid pre-state)",
           "real-valued (continuous) scores: scores come from a 3-element domain so that pandas' hash-based sort can run; ties are therefore included"]
BOUNDS = {"quick": {"rows": 3, "id_domains": "see assumptions"}, "thorough": {"rows": 3, "pairs_of_operations": True}}
EXPECTED_EXCEPTIONS = ()
OPTS = {"max_paths": 6000}
OPTS_THOROUGH = {'max_paths': 40000, 'budget_s': 1200}
IDX = {"default": None, "gaps": [7, 2, 5, 11, 3, 8]}


def _conc(env, v):
    """fix an identifier to one value of its finite domain (sym: one path per feasible value)"""
    if env.mode == "sym":
        from sx import core
        return float(core.concretize(v)) if core.is_sym(v) else float(v)
    return float(v)


def _rows(env, n, tag, doms, base_rid=100):
    rows = []
    for i in range(n):
        r = {"geom1": float(base_rid + i)}
        for f, d in doms.items():
            r[f] = _conc(env, env.choice("%s_%s%d" % (f, tag, i), d))
        for f in ("x", "shift_x", "geom4", "phi"):
            r[f] = env.real("%s_%s%d" % (f, tag, i), -100, 100)
        for f in COLS:
            r.setdefault(f, 0.0)
        rows.append(r)
    return rows


def _motl(env, cm, rows, index="default"):
    m = mk_motl(env, cm, rows)
    if IDX[index] is not None:
        m.df.index = IDX[index][: len(rows)]
    return m


def _false(env):
    return env.not_(env.true())


def _same_rows(env, name, df, expected, ignore=()):
    """df rows (in order) equal the expected list of row dicts, every one of the 20 fields"""
    ok_cols = list(df.columns) == COLS or sorted(df.columns) == sorted(COLS)
    env.check(name + "_has_20_fields", env.true() if (ok_cols and df.shape[1] == 20) else _false(env))
    env.check(name + "_row_count", env.true() if df.shape[0] == len(expected) else _false(env))
    if df.shape[0] != len(expected) or not ok_cols:
        return
    for i, e in enumerate(expected):
        a = row(df, i)
        env.check("%s_row_%d" % (name, i), env.and_(*[env.eq(a[c], e[c]) for c in COLS if c not in ignore]))


# --- operations --------------------------------------------------------------------------------

def h_subset(env, feature="tomo_id", values=(2.0, 1.0), index="default", reset_index=True, domain=(1, 2, 3)):
    cm = env.module("cryomotl")
    rows = _rows(env, 3, "a", {feature: list(domain)})
    m = _motl(env, cm, rows, index)
    vals = list(values)
    out = m.get_motl_subset(vals if len(vals) > 1 else vals[0], feature_id=feature, reset_index=reset_index)
    exp = [r for v in vals for r in rows if r[feature] == v]
    _same_rows(env, "subset", out.df, exp)
    _same_rows(env, "input_untouched", m.df, rows)


def h_remove_and_split(env, feature="class", index="default", dom=(1, 2)):
    cm = env.module("cryomotl")
    rows = _rows(env, 3, "a", {feature: list(dom)})
    m = _motl(env, cm, rows, index)
    parts = m.split_by_feature(feature)
    uniq = []
    for r in rows:
        if r[feature] not in uniq:
            uniq.append(r[feature])
    env.check("split_number_of_parts", env.true() if len(parts) == len(uniq) else _false(env))
    # a partition: one part per occurring value, in whatever order; each part = the rows with that value, original order
    seen = []
    for k, p in enumerate(parts):
        pv = sorted(set(float(v) for v in p.df[feature]))
        env.check("split_part_%d_holds_one_value" % k, env.true() if len(pv) == 1 and pv[0] in uniq and pv[0] not in seen else _false(env))
        if len(pv) != 1:
            continue
        seen.append(pv[0])
        _same_rows(env, "split_part_of_value_%s" % str(pv[0]).replace(".", "_"), p.df, [r for r in rows if r[feature] == pv[0]])
    env.check("split_covers_every_value", env.true() if sorted(seen) == sorted(uniq) else _false(env))
    m2 = _motl(env, cm, rows, index)
    v0 = float(dom[0])
    m2.remove_feature(feature, v0)
    _same_rows(env, "remove", m2.df, [r for r in rows if r[feature] != v0])
    sel = _motl(env, cm, rows, index).get_motl_subset(v0, feature_id=feature)
    env.check("remove_and_select_complementary", env.true() if m2.df.shape[0] + sel.df.shape[0] == len(rows) else _false(env))
    m3 = _motl(env, cm, rows, index)
    m3.remove_feature(feature, [float(v) for v in dom])
    env.check("remove_all_values_leaves_empty_20_fields", env.true() if (m3.df.shape[0] == 0 and m3.df.shape[1] == 20) else _false(env))


def h_intersection(env, index="default"):
    cm = env.module("cryomotl")
    r1 = _rows(env, 2, "a", {"subtomo_id": [1, 2, 3]})
    r2 = _rows(env, 2, "b", {"subtomo_id": [1, 2, 3]}, base_rid=200)
    m1, m2 = _motl(env, cm, r1, index), _motl(env, cm, r2)
    out = cm.Motl.get_motl_intersection(m1, m2)
    ids2 = [r["subtomo_id"] for r in r2]
    # rows of the first list whose id occurs in the second (once per occurrence in the second: SQL inner join)
    exp = [r for r in r1 for j in ids2 if j == r["subtomo_id"]]
    exp_set = [r for r in r1 if r["subtomo_id"] in ids2]
    if len(set(ids2)) == len(ids2):
        _same_rows(env, "intersection", out.df, exp_set)
    else:
        # duplicate ids in the second list: the property only fixes *which* rows of the first list survive
        got = [float(out.df["geom1"].iloc[i]) for i in range(out.df.shape[0])]
        env.check("intersection_row_set", env.true() if sorted(set(got)) == sorted(set(r["geom1"] for r in exp_set)) else _false(env))
    _same_rows(env, "first_untouched", m1.df, r1)
    _same_rows(env, "second_untouched", m2.df, r2)


def _best(rows, ascending):
    out = {}
    for r in rows:
        k = r["subtomo_id"]
        if k not in out:
            out[k] = r
        else:
            better = r["score"] < out[k]["score"] if ascending else r["score"] > out[k]["score"]
            if better:
                out[k] = r
    return out


def h_drop_duplicates(env, ascending=False, index="default"):
    cm = env.module("cryomotl")
    rows = _rows(env, 3, "a", {"subtomo_id": [1, 2], "score": [0.25, 0.5, 0.75], "tomo_id": [2, 1]})      # duplicates may sit in different tomograms
    m = _motl(env, cm, rows, index)
    m.drop_duplicates(decision_sort_ascending=ascending)
    best = _best(rows, ascending)
    df = m.df
    env.check("one_row_per_id", env.true() if sorted(float(v) for v in df["subtomo_id"]) == sorted(best) else _false(env))
    env.check("has_20_fields", env.true() if df.shape[1] == 20 else _false(env))
    for i in range(df.shape[0]):
        a = row(df, i)
        k = float(a["subtomo_id"])
        if k not in best:
            continue
        env.check("kept_row_is_best_scoring_%d" % i, env.true() if float(a["score"]) == best[k]["score"] else _false(env))
        # the kept row is one of the input rows, unchanged
        orig = [r for r in rows if r["geom1"] == float(a["geom1"])]
        env.check("kept_row_unchanged_%d" % i, env.and_(*[env.eq(a[c], orig[0][c]) for c in COLS]) if orig else _false(env))


def h_merge_and_renumber(env, index="default", sizes=(2, 2)):
    cm = env.module("cryomotl")
    lists = []
    for li, n in enumerate(sizes):
        lists.append(_rows(env, n, "abcd"[li], {"object_id": [1, 2, 5]}, base_rid=100 * (li + 1)))
    allrows = [r for l in lists for r in l]
    for k, r in enumerate(allrows):
        r["subtomo_id"] = [7.0, 3.0, 3.0, 1.0, 9.0, 2.0][k]      # unsorted, repeated ids before renumbering
    motls = [_motl(env, cm, l, index if li == 0 else "default") for li, l in enumerate(lists)]
    out = cm.Motl.merge_and_renumber(motls)
    df = out.df
    N = len(allrows)
    env.check("has_20_fields", env.true() if df.shape[1] == 20 and sorted(df.columns) == sorted(COLS) else _false(env))
    env.check("row_count", env.true() if df.shape[0] == N else _false(env))
    if df.shape[0] != N:
        return
    env.check("subtomo_ids_1_to_N", env.true() if [float(v) for v in df["subtomo_id"]] == [float(k + 1) for k in range(N)] else _false(env))
    o = [float(v) for v in df["object_id"]]
    pos = 0
    groups = []
    for l in lists:
        groups.append(o[pos:pos + len(l)])
        pos += len(l)
    collide = any(set(groups[a]) & set(groups[b]) for a in range(len(groups)) for b in range(a + 1, len(groups)))
    env.check("objects_do_not_collide_across_inputs", env.true() if not collide else _false(env))
    for li, l in enumerate(lists):
        ok = all((groups[li][a] == groups[li][b]) == (l[a]["object_id"] == l[b]["object_id"]) for a in range(len(l)) for b in range(len(l)))
        env.check("grouping_kept_input_%d" % li, env.true() if ok else _false(env))
    for i, r in enumerate(allrows):
        a = row(df, i)
        env.check("other_fields_unchanged_%d" % i, env.and_(*[env.eq(a[c], r[c]) for c in COLS if c not in ("subtomo_id", "object_id")]))
    for li, (m, l) in enumerate(zip(motls, lists)):
        _same_rows(env, "input_%d_untouched" % li, m.df, l)


def h_merge_and_drop_duplicates(env, obj_b=1):
    cm = env.module("cryomotl")
    r1 = _rows(env, 2, "a", {"subtomo_id": [1, 2], "score": [0.25, 0.75], "tomo_id": [1, 3]})
    r2 = _rows(env, 1, "b", {"subtomo_id": [1, 2], "score": [0.5], "tomo_id": [2]}, base_rid=200)
    for r in r1:
        r["object_id"] = 1.0
    for r in r2:
        r["object_id"] = float(obj_b)
    r1[-1]["object_id"] = 2.0
    out = cm.Motl.merge_and_drop_duplicates([_motl(env, cm, r1), _motl(env, cm, r2)])
    best = _best(r1 + r2, False)
    df = out.df
    env.check("has_20_fields", env.true() if df.shape[1] == 20 else _false(env))
    env.check("one_row_per_id", env.true() if sorted(float(v) for v in df["subtomo_id"]) == sorted(best) else _false(env))
    for i in range(df.shape[0]):
        a = row(df, i)
        k = float(a["subtomo_id"])
        if k in best:
            env.check("kept_row_is_best_scoring_%d" % i, env.true() if float(a["score"]) == best[k]["score"] else _false(env))
            orig = [r for r in r1 + r2 if r["geom1"] == float(a["geom1"])]
            env.check("other_fields_unchanged_%d" % i, env.and_(*[env.eq(a[c], orig[0][c]) for c in COLS if c != "object_id"]) if orig else _false(env))
    # object numbers of survivors: never shared between rows that came from different inputs, grouping inside an input kept
    surv = [(float(df["geom1"].iloc[i]), float(df["object_id"].iloc[i])) for i in range(df.shape[0])]
    src = {r["geom1"]: (0, r["object_id"]) for r in r1}
    src.update({r["geom1"]: (1, r["object_id"]) for r in r2})
    okc = all(not (oa == ob and src[ga][0] != src[gb][0]) for (ga, oa) in surv for (gb, ob) in surv if ga in src and gb in src)
    env.check("objects_do_not_collide_across_inputs", env.true() if okc else _false(env))
    okg = all((oa == ob) == (src[ga][1] == src[gb][1]) for (ga, oa) in surv for (gb, ob) in surv if ga in src and gb in src and src[ga][0] == src[gb][0])
    env.check("grouping_kept_within_inputs", env.true() if okg else _false(env))


def h_renumber_objects(env, index="default", start=1, n=3, odom=(1, 2, 5)):
    cm = env.module("cryomotl")
    rows = _rows(env, n, "a", {"tomo_id": [1, 2], "object_id": list(odom)})
    m = _motl(env, cm, rows, index)
    m.renumber_objects_sequentially(start) if start != 1 else m.renumber_objects_sequentially()
    df = m.df
    env.check("has_20_fields", env.true() if df.shape[1] == 20 and sorted(df.columns) == sorted(COLS) else _false(env))
    env.check("row_count", env.true() if df.shape[0] == n else _false(env))
    if df.shape[0] != n or df.shape[1] != 20:
        return
    got = {float(df["geom1"].iloc[i]): float(df["object_id"].iloc[i]) for i in range(n)}
    # same (tomogram, object) grouping
    ok = True
    for r in rows:
        for q in rows:
            same_before = (r["tomo_id"], r["object_id"]) == (q["tomo_id"], q["object_id"])
            same_after = got[r["geom1"]] == got[q["geom1"]]
            ok = ok and (same_before == same_after)
    env.check("grouping_kept", env.true() if ok else _false(env))
    vals = sorted(set(got.values()))
    env.check("consecutive_numbers_from_start", env.true() if vals == [float(start + k) for k in range(len(vals))] else _false(env))
    for i in range(n):
        a = row(df, i)
        orig = [r for r in rows if r["geom1"] == float(a["geom1"])][0]
        env.check("other_fields_unchanged_%d" % i, env.and_(*[env.eq(a[c], orig[c]) for c in COLS if c != "object_id"]))


def h_renumber_particles(env, index="default"):
    cm = env.module("cryomotl")
    rows = _rows(env, 3, "a", {"subtomo_id": [1, 2, 3]})
    m = _motl(env, cm, rows, index)
    m.renumber_particles()
    exp = [dict(r, subtomo_id=float(i + 1)) for i, r in enumerate(rows)]
    _same_rows(env, "renumbered", m.df, exp)


def h_sequence(env, ops="remove>renumber_objects"):
    """two-step histories: the second operation starts from the (index-gapped) state the first one leaves"""
    cm = env.module("cryomotl")
    rows = _rows(env, 3, "a", {"tomo_id": [1, 2], "object_id": [1, 5], "class": [1, 2]})
    m = _motl(env, cm, rows)
    first, second = ops.split(">")
    cur = list(rows)
    if first == "remove":
        m.remove_feature("class", 1.0)
        cur = [r for r in cur if r["class"] != 1.0]
    elif first == "split":
        m = m.split_by_feature("class")[0]
        cur = [r for r in cur if r["class"] == rows[0]["class"]]
    if not cur:
        return
    if second == "renumber_objects":
        m.renumber_objects_sequentially()
        env.check("has_20_fields", env.true() if m.df.shape[1] == 20 else _false(env))
        env.check("row_count", env.true() if m.df.shape[0] == len(cur) else _false(env))
        if m.df.shape[0] == len(cur) and m.df.shape[1] == 20:
            for i, r in enumerate(cur):
                a = row(m.df, i)
                env.check("other_fields_unchanged_%d" % i, env.and_(*[env.eq(a[c], r[c]) for c in COLS if c != "object_id"]))
    elif second == "renumber_particles":
        m.renumber_particles()
        _same_rows(env, "renumbered", m.df, [dict(r, subtomo_id=float(i + 1)) for i, r in enumerate(cur)])
    elif second == "subset":
        out = m.get_motl_subset(1.0, feature_id="tomo_id")
        _same_rows(env, "subset", out.df, [r for r in cur if r["tomo_id"] == 1.0])
    elif second == "drop_duplicates":
        m.drop_duplicates(duplicates_column="tomo_id", decision_column="object_id")
        env.check("has_20_fields", env.true() if m.df.shape[1] == 20 else _false(env))
        env.check("one_row_per_id", env.true() if sorted(float(v) for v in m.df["tomo_id"]) == sorted(set(r["tomo_id"] for r in cur)) else _false(env))


HIST_OPS = ["subset_tomo1", "subset_tomo2_keepindex", "remove_class1", "split_class_first", "intersect_B", "drop_dup", "merge_B", "renumber_particles", "renumber_objects"]


def _snapshot(df):
    """the table as a list of row dicts (identifier cells are concrete, payload cells symbolic terms)"""
    return [row(df, i) for i in range(df.shape[0])]


def h_history(env, length=3, ops=None):
    """Histories of `length` operations chosen by solver forks (every sequence over HIST_OPS is a path family).  After each
    step the real table is compared with the step's row-set specification applied to the table the step STARTED from (read
    back from the real object, so index labels / dtypes / duplicates left by earlier steps are whatever the code left)."""
    cm = env.module("cryomotl")
    ID = ("tomo_id", "object_id", "subtomo_id", "class", "score", "geom1")
    rows = _rows(env, 4, "a", {})
    for r, (t, o, sid, c, sc) in zip(rows, [(1, 5, 3, 1, 0.5), (2, 1, 1, 2, 0.75), (1, 5, 3, 2, 0.25), (1, 2, 7, 2, 0.5)]):
        r.update(tomo_id=float(t), object_id=float(o), subtomo_id=float(sid), score=sc)
        r["class"] = float(c)
    rb = _rows(env, 2, "b", {}, base_rid=200)
    for r, (t, o, sid, c, sc) in zip(rb, [(1, 1, 3, 1, 0.5), (3, 2, 9, 1, 1.0)]):
        r.update(tomo_id=float(t), object_id=float(o), subtomo_id=float(sid), score=sc)
        r["class"] = float(c)
    m = _motl(env, cm, rows)
    allorig = {r["geom1"]: r for r in rows + rb}
    names = list(ops) if ops else HIST_OPS
    for step in range(length):
        op = names[_pick(env, "op%d" % step, len(names))]
        pre = _snapshot(m.df)
        tag = "step%d_%s" % (step, op)
        payload_free = {"subtomo_id", "object_id"} if op in ("merge_B", "renumber_particles", "renumber_objects") else set()
        if op == "subset_tomo1":
            m = m.get_motl_subset(1.0, feature_id="tomo_id")
            exp = [r for r in pre if float(r["tomo_id"]) == 1.0]
        elif op == "subset_tomo2_keepindex":
            m = m.get_motl_subset([2.0, 1.0], feature_id="tomo_id", reset_index=False)
            exp = [r for r in pre if float(r["tomo_id"]) == 2.0] + [r for r in pre if float(r["tomo_id"]) == 1.0]
        elif op == "remove_class1":
            m.remove_feature("class", 1.0)
            exp = [r for r in pre if float(r["class"]) != 1.0]
        elif op == "split_class_first":
            if not pre:
                continue
            parts = m.split_by_feature("class")
            vals = sorted(set(float(r["class"]) for r in pre))
            # a partition: one part per occurring value (the order of the parts is not fixed by the property), each holding
            # exactly the rows with that value
            pv = [sorted(set(float(v) for v in p_.df["class"])) for p_ in parts]
            okp = all(len(v) == 1 for v in pv) and sorted(v[0] for v in pv if v) == vals
            env.check(tag + "_one_part_per_value", env.true() if okp else _false(env))
            if not okp:
                return
            env.check(tag + "_partition_sizes", env.true() if all(p_.df.shape[0] == sum(1 for r in pre if float(r["class"]) == v[0]) for p_, v in zip(parts, pv)) else _false(env))
            m = parts[0]
            exp = [r for r in pre if float(r["class"]) == pv[0][0]]
        elif op == "intersect_B":
            m = cm.Motl.get_motl_intersection(m, _motl(env, cm, rb))
            idsb = [float(r["subtomo_id"]) for r in rb]
            exp = [r for r in pre if float(r["subtomo_id"]) in idsb]
        elif op == "drop_dup":
            m.drop_duplicates()
            post = _snapshot(m.df)
            ids = sorted(set(float(r["subtomo_id"]) for r in pre))
            env.check(tag + "_one_row_per_id", env.true() if sorted(float(r["subtomo_id"]) for r in post) == ids else _false(env))
            for r in post:
                best = max(float(q["score"]) for q in pre if float(q["subtomo_id"]) == float(r["subtomo_id"])) if pre else None
                env.check(tag + "_kept_is_best_scoring_%d" % int(float(r["geom1"])), env.true() if float(r["score"]) == best else _false(env))
            def _same(q, r):     # a row is identified by its tag AND its object number (B may have been merged in more than once; rows sharing a subtomogram number differ in at least one of the two)
                return float(q["geom1"]) == float(r["geom1"]) and float(q["object_id"]) == float(r["object_id"]) and float(q["score"]) == float(r["score"])
            exp = [[q for q in pre if _same(q, r)][0] for r in post if any(_same(q, r) for q in pre)]
            env.check(tag + "_kept_rows_come_from_the_list", env.true() if len(exp) == len(post) else _false(env))
        elif op == "merge_B":
            m = cm.Motl.merge_and_renumber([m, _motl(env, cm, rb)])
            post = _snapshot(m.df)
            exp = pre + [dict(r) for r in rb]
            if len(post) == len(exp):
                env.check(tag + "_subtomo_1_to_N", env.true() if [float(r["subtomo_id"]) for r in post] == [float(k + 1) for k in range(len(post))] else _false(env))
                oa, ob = [float(r["object_id"]) for r in post[:len(pre)]], [float(r["object_id"]) for r in post[len(pre):]]
                env.check(tag + "_objects_do_not_collide", env.true() if not (set(oa) & set(ob)) else _false(env))
                for grp_post, grp_pre in ((oa, pre), (ob, rb)):
                    okg = all((grp_post[a] == grp_post[b]) == (float(grp_pre[a]["object_id"]) == float(grp_pre[b]["object_id"])) for a in range(len(grp_pre)) for b in range(len(grp_pre)))
                    env.check(tag + "_grouping_kept", env.true() if okg else _false(env))
        elif op == "renumber_particles":
            m.renumber_particles()
            exp = pre
            post = _snapshot(m.df)
            env.check(tag + "_ids_1_to_N", env.true() if [float(r["subtomo_id"]) for r in post] == [float(k + 1) for k in range(len(post))] else _false(env))
            payload_free = {"subtomo_id"}
        else:
            if not pre:
                continue
            m.renumber_objects_sequentially()
            exp = pre
            post = _snapshot(m.df)
            if len(post) == len(pre):
                got = [float(r["object_id"]) for r in post]
                okg = all((got[a] == got[b]) == ((float(pre[a]["tomo_id"]), float(pre[a]["object_id"])) == (float(pre[b]["tomo_id"]), float(pre[b]["object_id"]))) for a in range(len(pre)) for b in range(len(pre)))
                env.check(tag + "_grouping_kept", env.true() if okg else _false(env))
                vals = sorted(set(got))
                env.check(tag + "_consecutive_from_1", env.true() if vals == [float(k + 1) for k in range(len(vals))] else _false(env))
            payload_free = {"object_id"}
        post = _snapshot(m.df)
        df = m.df
        env.check(tag + "_has_20_fields", env.true() if (df.shape[1] == 20 and sorted(df.columns) == sorted(COLS)) else _false(env))
        env.check(tag + "_row_count", env.true() if len(post) == len(exp) else _false(env))
        if len(post) != len(exp) or df.shape[1] != 20:
            return
        for i, (a, e) in enumerate(zip(post, exp)):
            env.check("%s_row_%d_is_expected_row_unchanged" % (tag, i), env.and_(*[env.eq(a[c], e[c]) for c in COLS if c not in payload_free]))
            o = allorig.get(float(a["geom1"]))
            env.check("%s_row_%d_payload_as_originally" % (tag, i), env.and_(*[env.eq(a[c], o[c]) for c in ("x", "shift_x", "geom4", "phi")]) if o is not None else _false(env))


def _pick(env, name, k):
    return int(_conc(env, env.choice(name, list(range(k)))))


def jobs(tier, seed):
    j = [
        ("h_subset", {"feature": "tomo_id", "values": [2.0, 1.0]}),
        ("h_subset", {"feature": "tomo_id", "values": [3.0], "index": "gaps", "reset_index": False}),
        ("h_remove_and_split", {"feature": "class"}),
        ("h_remove_and_split", {"feature": "class", "index": "gaps"}),
        ("h_remove_and_split", {"feature": "geom2", "dom": [2.0, 2.5, 0.75]}), ("h_remove_and_split", {"feature": "score", "dom": [0.25, 0.5], "index": "gaps"}),
        ("h_intersection", {}),
        ("h_intersection", {"index": "gaps"}),
        ("h_drop_duplicates", {"ascending": False}),
        ("h_drop_duplicates", {"ascending": True, "index": "gaps"}),
        ("h_merge_and_renumber", {}),
        ("h_merge_and_renumber", {"index": "gaps"}),
        ("h_merge_and_renumber", {"sizes": [1, 2, 1]}),
        ("h_merge_and_drop_duplicates", {}), ("h_merge_and_drop_duplicates", {"obj_b": 0}),
        ("h_renumber_objects", {"n": 4, "odom": [1, 2]}),
        ("h_subset", {"feature": "subtomo_id", "values": [200002.0], "domain": [200001, 200002, 7]}),
        ("h_subset", {"feature": "score", "values": [0.75], "domain": [0.75, 0.750001, 0.5]}),
        ("h_renumber_objects", {}),
        ("h_renumber_objects", {"index": "gaps", "start": 4}),
        ("h_renumber_particles", {"index": "gaps"}),
        ("h_sequence", {"ops": "remove>renumber_objects"}),
        ("h_sequence", {"ops": "split>renumber_particles"}),
        ("h_history", {"length": 3}),
    ]
    if tier == "thorough":
        j += [("h_sequence", {"ops": a + ">" + b}) for a in ("remove", "split") for b in ("renumber_objects", "renumber_particles", "subset", "drop_duplicates")]
        j += [("h_history", {"length": 4}), ("h_history", {"length": 5, "ops": ["remove_class1", "subset_tomo2_keepindex", "drop_dup", "merge_B", "renumber_objects"]})]
        j += [("h_subset", {"feature": "object_id", "values": [1.0, 3.0, 2.0]}), ("h_remove_and_split", {"feature": "tomo_id", "index": "gaps"})]
    return j
