"""C19 — chain tracing partitions particles into simple, distance-respecting chains."""
import itertools
import numpy as np
import pandas as pd
from .common import *  # noqa

PROPERTY = "C19"
EXPLANATION = ("Real ribana.trace_chains / get_nn_dist / add_chain_suffix / add_chain_prefix on real pandas frames: entry positions and exit displacements are "
               "solver reals (on a symbolic line, so distances are |dx|: linear arithmetic), max/min distance symbolic; sklearn's KD-tree is a brute-force "
               "specification whose radius/sort comparisons fork the path. On every path the returned particle list is checked: every particle once, "
               "order numbers 1..k per chain, link distances inside (min,max] and equal to the recorded value, no chain across tomograms.")
ASSUMPTIONS = ["N = 2 (complete) and N = 3 (path budget; quick) / complete (thorough) particles in tomogram 1 on a symbolic line, plus one concrete pair in tomogram 2",
               "coordinates in [-50,50], max_distance in (0,40], min_distance in [0,10]; no exit site coinciding with another particle's entry site (degenerate zero-length contact excluded); equal-length links and links of length exactly min/max are INCLUDED"]
OUTSIDE = ["N > 4 particles per tomogram (the merge / prefix / tail-cut branches multiply paths); the lines of trace_chains / add_chain_suffix / add_chain_prefix that no symbolic path reached are listed in the evidence (coverage.line_coverage_of_entered_functions)", "3-D arrangements in the quick tier", "float rounding (A0)"]
BOUNDS = {"quick": {"N": "2 complete, 3 under a path budget"}, "thorough": {"N": "3 complete, 4 on a line under a budget"}}
EXPECTED_EXCEPTIONS = ()
FOCUS = ["ribana:trace_chains", "ribana:add_chain_suffix", "ribana:add_chain_prefix", "ribana:get_nn_dist"]
OPTS = {"qtimeout": 10.0, "max_paths": 500, "budget_s": 170}
OPTS_THOROUGH = {'max_paths': 30000, 'budget_s': 1200}


def _false(env):
    return env.not_(env.true())


def h_trace(env, n=2, min_zero=True, second_tomo=True, space="line", labels=False):
    rb = env.module("ribana")
    cm = env.module("cryomotl")
    ent, ext = [], []
    for i in range(n):
        e = {"tomo_id": 1.0, "subtomo_id": float(i + 1), "score": 0.5, "class": 1.0, "object_id": 0.0}
        x = {"tomo_id": 1.0, "subtomo_id": float(i + 1), "score": 0.5, "class": 1.0, "object_id": 0.0}
        e["x"] = env.real("ex%d" % i, -50, 50)
        x["x"] = e["x"] + env.real("dx%d" % i, -10, 10)
        if space == "line":
            e["y"], e["z"], x["y"], x["z"] = 1.0, 2.0, 1.0, 2.0
        else:
            e["y"] = env.real("ey%d" % i, -50, 50)
            x["y"] = e["y"] + env.real("dy%d" % i, -10, 10)
            e["z"], x["z"] = 2.0, 2.5
        ent.append(e)
        ext.append(x)
    if second_tomo:
        ent.append({"tomo_id": 2.0, "subtomo_id": float(n + 1), "x": 0.0, "y": 0.0, "z": 0.0})
        ext.append({"tomo_id": 2.0, "subtomo_id": float(n + 1), "x": 1.0, "y": 0.0, "z": 0.0})
        # exit(n+1) = (1,0,0) -> entry(n+2) = (4,4,0): distance exactly 5 (representable: no float/real discrepancy at a boundary)
        ent.append({"tomo_id": 2.0, "subtomo_id": float(n + 2), "x": 4.0, "y": 4.0, "z": 0.0})
        ext.append({"tomo_id": 2.0, "subtomo_id": float(n + 2), "x": 30.0, "y": 0.0, "z": 0.0})
    dmax = env.real("dmax", 0.001, 40)
    dmin = 0.0 if min_zero else env.real("dmin", 0.001, 10)
    if not min_zero:
        env.assume(env.lt(dmin, dmax))
    N = len(ent)

    def d2(a, b):       # exit(a) -> entry(b)
        return sum((ext[a].get(c, 0.0) - ent[b].get(c, 0.0)) * (ext[a].get(c, 0.0) - ent[b].get(c, 0.0)) for c in "xyz")
    links = [(a, b) for a in range(n) for b in range(n) if a != b]
    # equal-length candidate links are NOT excluded: whichever the tracer picks, the result must still be a valid partition
    for (a, b) in links:
        env.assume(env.not_(env.eq(d2(a, b), 0.0)))
    # NOTE: links of length exactly max_distance / min_distance are NOT excluded: the interval is (min, max]
    me, mx = mk_motl(env, cm, ent), mk_motl(env, cm, ext)
    if labels:
        # descending, gapped row labels (the same in both site lists, which describe the same particles): what a selection without index reset leaves
        me.df.index = [2 * len(ent) - 2 * i + 1 for i in range(len(ent))]
        mx.df.index = [2 * len(ext) - 2 * i + 1 for i in range(len(ext))]
    out = rb.trace_chains(me, mx, dmax, dmin)
    df = out.df
    ids = sorted(float(v) for v in df["subtomo_id"])
    env.check("every_particle_exactly_once", env.true() if ids == [float(i + 1) for i in range(N)] else _false(env))
    env.check("has_20_fields", env.true() if sorted(df.columns) == sorted(COLS) else _false(env))
    rows = [row(df, j) for j in range(df.shape[0])]
    chains = {}
    for r in rows:
        chains.setdefault((float(r["tomo_id"]), float(r["object_id"])), []).append(r)
    # chains never span tomograms: an object number may be reused in another tomogram, but within the result a
    # (tomogram, object) group must consist of particles of that tomogram only - which holds by construction of the key;
    # what can go wrong is one traced chain (consecutive order numbers) mixing tomograms: checked via the input tomogram of each id
    for (t, o), mem in chains.items():
        orders = sorted(float(m["geom2"]) for m in mem)
        env.check("chain_t%d_o%d_orders_1_to_k" % (t, o), env.true() if orders == [float(k + 1) for k in range(len(mem))] else _false(env))
        for m in mem:
            src = ent[int(float(m["subtomo_id"])) - 1]
            env.check("chain_t%d_o%d_member_%d_from_this_tomogram" % (t, o, int(float(m["subtomo_id"]))), env.true() if float(src["tomo_id"]) == t else _false(env))
        mem = sorted(mem, key=lambda m: float(m["geom2"]))
        for a, b in zip(mem[:-1], mem[1:]):
            ia, ib = int(float(a["subtomo_id"])) - 1, int(float(b["subtomo_id"])) - 1
            dd = d2(ia, ib)
            tag = "link_%d_to_%d" % (ia + 1, ib + 1)
            env.check(tag + "_within_max", env.le(dd, dmax * dmax))
            env.check(tag + "_beyond_min", env.gt(dd, dmin * dmin))
            env.check(tag + "_distance_recorded", env.and_(env.eq(a["geom4"] * a["geom4"], dd), env.ge(a["geom4"], 0.0)))
    env.note("chains", sorted((k, len(v)) for k, v in chains.items()))


def h_family(env, fam=0, n=5, sym=(0,), min_zero=True):
    """A family of dense arrangements: n particles on a line with seeded integer coordinates, except the particles in `sym`
    whose entry position and exit displacement are solver reals, and a symbolic max_distance.  Reaches the merge / prefix /
    tail-cut branches that need 4-5 particles while the solver still covers a continuum of arrangements per family."""
    import random
    rb = env.module("ribana")
    cm = env.module("cryomotl")
    rnd = random.Random(1000 + fam)
    xs = rnd.sample(range(0, 4 * n), n)
    ent, ext = [], []
    for i in range(n):
        e = {"tomo_id": 1.0, "subtomo_id": float(i + 1), "y": 0.0, "z": 0.0}
        x = {"tomo_id": 1.0, "subtomo_id": float(i + 1), "y": 0.0, "z": 0.0}
        if i in sym:
            e["x"] = env.real("ex%d" % i, -2, 4 * n + 2)
            x["x"] = e["x"] + env.real("dx%d" % i, -3, 3)
        else:
            e["x"] = float(xs[i])
            x["x"] = float(xs[i]) + rnd.choice([-2.5, -1.5, -0.5, 0.5, 1.5, 2.5])
        ent.append(e)
        ext.append(x)
    dmax = env.real("dmax", 0.5, 8)
    dmin = 0.0 if min_zero else env.real("dmin", 0.25, 3)
    if not min_zero:
        env.assume(env.lt(dmin, dmax))

    def d1(a, b):
        return ext[a]["x"] - ent[b]["x"]
    links = [(a, b) for a in range(n) for b in range(n) if a != b]
    symlinks = [l for l in links if l[0] in sym or l[1] in sym]
    for (a, b) in symlinks:
        env.assume(env.not_(env.eq(d1(a, b), 0.0)))
    out = rb.trace_chains(mk_motl(env, cm, ent), mk_motl(env, cm, ext), dmax, dmin)
    df = out.df
    ids = sorted(float(v) for v in df["subtomo_id"])
    env.check("every_particle_exactly_once", env.true() if ids == [float(i + 1) for i in range(n)] else _false(env))
    rows = [row(df, j) for j in range(df.shape[0])]
    chains = {}
    for r in rows:
        chains.setdefault(float(r["object_id"]), []).append(r)
    for o, mem in chains.items():
        orders = sorted(float(m["geom2"]) for m in mem)
        env.check("chain_o%d_orders_1_to_k" % o, env.true() if orders == [float(k + 1) for k in range(len(mem))] else _false(env))
        mem = sorted(mem, key=lambda m: float(m["geom2"]))
        for a, b in zip(mem[:-1], mem[1:]):
            ia, ib = int(float(a["subtomo_id"])) - 1, int(float(b["subtomo_id"])) - 1
            dd = d1(ia, ib) * d1(ia, ib)
            tag = "link_%d_to_%d" % (ia + 1, ib + 1)
            env.check(tag + "_within_max", env.le(dd, dmax * dmax))
            env.check(tag + "_beyond_min", env.gt(dd, dmin * dmin))
            env.check(tag + "_distance_recorded", env.and_(env.eq(a["geom4"] * a["geom4"], dd), env.ge(a["geom4"], 0.0)))


def _check_partition(env, df, ent, ext, dmax, dmin, n, d1=None, dsq=None):
    ids = sorted(float(v) for v in df["subtomo_id"])
    env.check("every_particle_exactly_once", env.true() if ids == [float(i + 1) for i in range(n)] else _false(env))
    rows = [row(df, j) for j in range(df.shape[0])]
    chains = {}
    for r in rows:
        chains.setdefault((float(r["tomo_id"]), float(r["object_id"])), []).append(r)
    for (t_, o), mem in chains.items():
        orders = sorted(float(m["geom2"]) for m in mem)
        env.check("chain_t%d_o%d_orders_1_to_k" % (t_, o), env.true() if orders == [float(k + 1) for k in range(len(mem))] else _false(env))
        env.check("chain_t%d_o%d_within_one_tomogram" % (t_, o), env.true() if all(float(ent[int(float(m["subtomo_id"])) - 1]["tomo_id"]) == t_ for m in mem) else _false(env))
        mem = sorted(mem, key=lambda m: float(m["geom2"]))
        for a, b in zip(mem[:-1], mem[1:]):
            ia, ib = int(float(a["subtomo_id"])) - 1, int(float(b["subtomo_id"])) - 1
            dd = dsq(ia, ib) if dsq is not None else d1(ia, ib) * d1(ia, ib)
            tag = "link_%d_to_%d" % (ia + 1, ib + 1)
            env.check(tag + "_within_max", env.le(dd, dmax * dmax))
            env.check(tag + "_beyond_min", env.gt(dd, dmin * dmin))
            env.check(tag + "_distance_recorded", env.and_(env.eq(a["geom4"] * a["geom4"], dd), env.ge(a["geom4"], 0.0)))
        # a chain's LAST member carries no link distance of its own only if it never had a successor; what the property
        # fixes is the recorded value of every link (above)
    env.note("chains", sorted((str(k), [int(float(m["subtomo_id"])) for m in sorted(v, key=lambda m: float(m["geom2"]))]) for k, v in chains.items()))


def h_two_tomograms(env):
    """Object numbers restart in every tomogram: a merge in the SECOND tomogram (q0-q1 must be put in front of q2-q3, which were
    listed and traced first) must not touch the chain of the first tomogram that carries the same object number."""
    rb = env.module("ribana")
    cm = env.module("cryomotl")
    dmax = env.real("dmax", 2.5, 6)
    g = env.real("g", 0.5, 2.4)
    L = 4.0                                                   # particle length
    # tomogram 1: a straight chain of four, listed in order (links g)
    t1 = [(k * (L + g), k * (L + g) + L) for k in range(4)]
    # tomogram 2: the same chain listed as q2, q3, q0, q1
    t2 = [t1[2], t1[3], t1[0], t1[1]]
    P = [(1.0, a, b) for a, b in t1] + [(2.0, a, b) for a, b in t2]
    n = len(P)
    ent = [{"tomo_id": P[i][0], "subtomo_id": float(i + 1), "x": P[i][1], "y": 0.0, "z": 0.0} for i in range(n)]
    ext = [{"tomo_id": P[i][0], "subtomo_id": float(i + 1), "x": P[i][2], "y": 0.0, "z": 0.0} for i in range(n)]

    def d1(a, b):
        return ext[a]["x"] - ent[b]["x"]
    out = rb.trace_chains(mk_motl(env, cm, ent), mk_motl(env, cm, ext), dmax, 0.0)
    _check_partition(env, out.df, ent, ext, dmax, 0.0, n, d1)
    df = out.df
    for t_ in (1.0, 2.0):
        objs = set(float(df["object_id"].iloc[j]) for j in range(df.shape[0]) if float(df["tomo_id"].iloc[j]) == t_)
        env.check("tomogram_%d_is_one_chain_of_four" % t_, env.true() if len(objs) == 1 else _false(env))


def h_scenario(env, kind="head_cut_then_append", order=(0, 1, 2, 3)):
    """Arrangement skeletons that steer the tracer into the deep branches of add_chain_suffix / add_chain_prefix (a head
    or tail is cut off an existing chain and the pieces are re-attached), which need a specific multi-step history with
    four particles.  Only the ORDER of the gap lengths is assumed; base position, gaps, particle length and the
    distance limit are solver reals, so each skeleton covers a continuum of arrangements.  The obligations are the
    generic ones (valid partition whatever branch is taken).  `order` = the row order of the four particles in the list."""
    rb = env.module("ribana")
    cm = env.module("cryomotl")
    base = env.real("base", -20, 20)
    la = env.real("len_a", 0.25, 3)
    g1, g2, g3 = env.real("g1", 0.05, 8), env.real("g2", 0.05, 8), env.real("g3", 0.05, 8)
    dmax = env.real("dmax", 0.5, 8)
    if kind == "head_cut_then_append":
        # a -> b is traced (gap g1) although d is also in reach (g3 > g1); c ends closer in front of b (g2 < g1): c is put
        # before b and a is cut off; d (in reach of a's exit) is then appended after the cut-off head
        env.assume(env.and_(env.lt(g2, g1), env.lt(g1, g3), env.le(g3, dmax)))
        xa = base + la
        P = [(base, xa), (xa + g1, xa + g1 + 27.0), (base + 60.0, xa + g1 - g2), (xa - g3, xa - g3 - 40.0)]
    elif kind == "prefix_kept":
        # as above, but the late particle c ends FARTHER from b than a does (g2 > g1): the original link must be kept
        # (d is out of reach of everything here; a's own entry must be farther from c's exit than b's entry: la + g1 > 2 g2)
        env.assume(env.and_(env.lt(g1, g2), env.le(g2, dmax), env.gt(la + g1, 2 * g2)))
        xa = base + la
        P = [(base, xa), (xa + g1, xa + g1 + 27.0), (base + 60.0, xa + g1 - g2), (base - 50.0 - g3, base - 90.0)]
    else:
        # two candidates behind one exit and two exits in front of one entry, all gaps within reach: both-sided attachment
        env.assume(env.and_(env.le(g1, dmax), env.le(g2, dmax), env.le(g3, dmax)))
        xa = base + la
        P = [(base, xa), (xa + g1, xa + g1 + la), (xa + g1 + la + g2, xa + g1 + la + g2 + 30.0), (base - g3 - 30.0, base - g3)]
    P = [P[i] for i in order]
    n = len(P)
    ent = [{"tomo_id": 1.0, "subtomo_id": float(i + 1), "x": P[i][0], "y": 0.0, "z": 0.0} for i in range(n)]
    ext = [{"tomo_id": 1.0, "subtomo_id": float(i + 1), "x": P[i][1], "y": 0.0, "z": 0.0} for i in range(n)]

    def d1(a, b):
        return ext[a]["x"] - ent[b]["x"]
    for a in range(n):
        for b in range(n):
            if a != b:
                env.assume(env.not_(env.eq(d1(a, b), 0.0)))
    out = rb.trace_chains(mk_motl(env, cm, ent), mk_motl(env, cm, ext), dmax, 0.0)
    _check_partition(env, out.df, ent, ext, dmax, 0.0, n, d1)



def h_scenario3d(env, kind="tail_cut"):
    """Six-particle skeletons in 3-D (the sites that interact sit on different axes around a common exit/entry site, which a
    line cannot host) for the branches of add_chain_suffix / add_chain_prefix that are reachable only after an earlier head
    cut: cutting a TAIL off (a later chain starts closer to a chain end than the chain appended there before), and the
    connection from BOTH sides with a head cut.  The gaps and the distance limit are solver reals constrained only in
    their order; far coordinates are concrete."""
    rb = env.module("ribana")
    cm = env.module("cryomotl")
    dmax = env.real("dmax", 1, 8)
    g = [env.real("g%d" % i, 0.1, 8) for i in range(5)]
    if kind == "tail_cut":
        gb, gc, gr, gx = g[0], g[1], g[2], g[3]
        env.assume(env.and_(env.lt(gc, gb), env.lt(gb, gx), env.lt(gx, gr), env.le(gr, dmax)))
        E = (-3.0, 0.0, 0.0)                                                 # exit site of b1
        P = [((-30.0, 0.0, 0.0), E),                                          # b1
             ((E[0] + gb, 0.0, 0.0), (40.0, 0.0, 0.0)),                       # b2: entry gb beyond b1's exit
             ((0.0, 40.0, 0.0), (E[0] + gb, gc, 0.0)),                        # c1: ends gc (< gb) from b2's entry -> head b1 cut off
             ((E[0], -gr, 0.0), (-3.0, -30.0, 0.0)),                          # r : entry gr from b1's exit -> appended after b1
             ((-3.0, -33.0, 0.0), (-3.0, -60.0, 0.0)),                        # r2: follows r (link 3)
             ((E[0], 0.0, gx), (0.0, 0.0, 80.0))]                             # x1: entry gx (< gr) from b1's exit -> tail (r, r2) cut
        env.assume(env.ge(dmax, 3.5))
    elif kind == "stale_flag":
        # two chains b1-b2-b3 and c1-c2-c3; p cuts b1 off (prefix before b2); s1 is appended after b1 (a successful suffix append);
        # then the TWO-particle chain n1-n2 connects only at its front, before c2, cutting c1 off: state left by the earlier
        # append must not leak into this prefix connection
        gb, gp, gs, gn = g[0], g[1], g[2], g[3]
        env.assume(env.and_(env.lt(gp, gb), env.lt(gn, gb), env.lt(gb, gs), env.le(gs, dmax), env.ge(gb, 3.5), env.ge(dmax, 4.5), env.le(dmax, 5.5)))
        P = []
        for y in (0.0, 100.0):
            P += [((0.0, y, 0.0), (6.0, y, 0.0)), ((6.0 + gb, y, 0.0), (12.0 + gb, y, 0.0)), ((16.0 + gb, y, 0.0), (22.0 + gb, y, 0.0))]
        P += [((6.0 + gb, 9.0, 0.0), (6.0 + gb, gp, 0.0)),                    # p : ends gp (< gb) above the entry of b2
              ((6.0, -gs, 0.0), (6.0, -gs - 6.0, 0.0)),                       # s1: entry gs (> gb) below the exit of b1
              ((6.0 + gb, 119.0, 0.0), (6.0 + gb, 113.0, 0.0)),               # n1
              ((6.0 + gb, 109.0, 0.0), (6.0 + gb, 100.0 + gn, 0.0))]          # n2: 4 below n1's exit; ends gn (< gb) above the entry of c2
    elif kind == "ring":
        # P -> X is traced; T cuts P off by prefixing X; the later chain S1 -> S2 starts in reach of P's exit and ends in reach
        # of P's entry: connecting BOTH of its ends to the (one-particle) chain P would close a ring - chains must stay simple
        a, b, c = g[0], g[1], g[2]
        env.assume(env.and_(env.lt(b, a), env.lt(a, c), env.le(c, dmax), env.ge(dmax, 7.5), env.ge(a, 2)))
        P = [((0.0, 0.0, 0.0), (10.0, 0.0, 0.0)),                              # P
             ((10.0 + a, 0.0, 0.0), (16.0, 50.0, 0.0)),                         # X : entry a beyond P's exit
             ((100.0, 100.0, 100.0), (10.0 + a, b, 0.0)),                       # T : ends b (< a) from X's entry
             ((10.0, -c, 0.0), (5.0, -14.0, 0.0)),                              # S1: entry c (> a) from P's exit
             ((0.0, -14.0, 0.0), (0.0, -7.0, 0.0))]                             # S2: 5 behind S1's exit; its exit 7 from P's entry
    else:
        g1, g2, g3, g4, g5 = g
        env.assume(env.and_(env.lt(g3, g1), env.lt(g1, g4), env.le(g4, dmax), env.lt(g5, g2), env.le(g2, dmax)))
        E1 = (-4.0, 0.0, 0.0)
        X2 = (20.0, 0.0, 0.0)
        P = [((-20.0, 0.0, 0.0), E1),                                         # b1
             ((E1[0] + g1, 0.0, 0.0), X2),                                    # b2
             ((X2[0] + g2, 0.0, 0.0), (40.0, 0.0, 0.0)),                      # b3
             ((0.0, 30.0, 0.0), (E1[0] + g1, g3, 0.0)),                       # c1: cuts b1 off
             ((E1[0], -g4, 0.0), (X2[0] + g2, g5, 0.0)),                      # d1: after b1 and before b3 (both sides), cutting (c1, b2) off
             ((0.0, 0.0, 50.0), (0.0, 0.0, 60.0))]                            # h : isolated, opens the next chain
    n = len(P)
    # the sites are COMPLETE positions (x + shift): the tables carry non-zero shifts, different on every axis
    sh_e, sh_x = (0.5, -0.75, 0.25), (-0.25, 0.5, 1.0)
    ent = [{"tomo_id": 1.0, "subtomo_id": float(i + 1), "x": P[i][0][0] - sh_e[0], "y": P[i][0][1] - sh_e[1], "z": P[i][0][2] - sh_e[2],
            "shift_x": sh_e[0], "shift_y": sh_e[1], "shift_z": sh_e[2]} for i in range(n)]
    ext = [{"tomo_id": 1.0, "subtomo_id": float(i + 1), "x": P[i][1][0] - sh_x[0], "y": P[i][1][1] - sh_x[1], "z": P[i][1][2] - sh_x[2],
            "shift_x": sh_x[0], "shift_y": sh_x[1], "shift_z": sh_x[2]} for i in range(n)]

    def dsq(a, b):
        return sum((P[a][1][k] - P[b][0][k]) * (P[a][1][k] - P[b][0][k]) for k in range(3))
    out = rb.trace_chains(mk_motl(env, cm, ent), mk_motl(env, cm, ext), dmax, 0.0)
    _check_partition(env, out.df, ent, ext, dmax, 0.0, n, dsq=dsq)


def jobs(tier, seed):
    j = [("h_trace", {"n": 2, "min_zero": True}), ("h_trace", {"n": 2, "min_zero": False, "second_tomo": False}), ("h_trace", {"n": 3, "min_zero": True, "second_tomo": False})]
    nf = 6 if tier == "quick" else 60
    fams = [("h_family", {"fam": seed * 1000 + f, "n": 5 if f % 2 == 0 else 4, "sym": [f % 4], "min_zero": f % 3 != 0}) for f in range(nf)]
    scen = [("h_scenario", {"kind": "head_cut_then_append"}), ("h_scenario", {"kind": "prefix_kept"}), ("h_scenario", {"kind": "both_sides"}),
            ("h_scenario3d", {"kind": "tail_cut"}), ("h_scenario3d", {"kind": "both_sides_head_cut"}), ("h_scenario3d", {"kind": "ring"}), ("h_two_tomograms", {}),
            ("h_trace", {"n": 2, "min_zero": True, "labels": True}),     # descending, gapped row labels (round 5)
            ("h_scenario3d", {"kind": "stale_flag"})]     # ten-particle history; in the quick tier since round 5 (it was thorough-only and the only way C19-9 is seen)
    if tier == "thorough":
        scen += [("h_scenario", {"kind": k, "order": list(o)}) for k in ("head_cut_then_append", "prefix_kept", "both_sides") for o in itertools.permutations(range(4)) if list(o) != [0, 1, 2, 3] and (k != "both_sides" or o[0] < o[1])]
    j = j[:2] + scen + fams + j[2:]
    if tier == "thorough":
        j += [("h_trace", {"n": 3, "min_zero": False}), ("h_trace", {"n": 4, "min_zero": True, "second_tomo": False}), ("h_trace", {"n": 2, "min_zero": True, "space": "plane"})]
    return j
