"""C01 — EM particle-list files round-trip losslessly for any table column order."""
import random
import numpy as np
import pandas as pd
from .common import *  # noqa

PROPERTY = "C01"
EXPLANATION = ("Real Motl.__init__/check_df_correct_format/Motl.write_out/EmMotl.write_out/EmMotl.read_in/Motl.load on a real pandas frame whose "
               "N x 20 cells are independent solver reals (plus NaN holes); the float32 narrowing is an uninterpreted function f32 shared by code "
               "and oracle; emfile is an in-memory model recording dtype, header dims and payload order (its concrete twin: the real emfile "
               "writes bytes that an independent struct-based parser reads). Column order of the input table is an enumerated family.")
ASSUMPTIONS = ["N in {1,2} (quick) / {1,2,3} (thorough) plus N = 20 and N = 21; row index default / gapped / shuffled labels; every cell an independent real in [-1e6,1e6] (within float32 range)",
               "NaN holes at up to two enumerated cell positions per job", "column orders: identity, reversal, 19 adjacent transpositions, 19 rotations, seeded random permutations (quick 12, thorough 120)"]
OUTSIDE = ["which float32 a float64 rounds to (inside the uninterpreted f32)", "all 20! column orders (labels must be concrete for pandas: enumerated family)"]
BOUNDS = {"quick": {"N": [1, 2], "orders": 52}, "thorough": {"N": [1, 2, 3], "orders": 160}}
EXPECTED_EXCEPTIONS = ()


def _false(env):
    return env.not_(env.true())


def _f32(env, v):
    if env.mode == "sym":
        from sx import core
        if not core.is_sym(v):
            return float(np.float32(v))
        return core.SNum(core.ufun("f32", 1)(core.zreal(v)))
    return float(np.float32(v))


def h_roundtrip(env, n=1, order=None, via="motl", holes=(), index="default", wide=False):
    cm = env.module("cryomotl")
    order = list(order) if order is not None else list(range(20))
    cols = [COLS[k] for k in order]
    big = ("subtomo_id", "tomo_id", "object_id")         # identifiers may be large (beyond 2**24, where float32 stops being exact)
    vals = [{c: (env.real("v%d_%s" % (i, c), -1e9, 1e9) if (wide and c in big) else env.real("v%d_%s" % (i, c), -1e6, 1e6)) for c in COLS} for i in range(n)]
    rows = [dict(v) for v in vals]
    for (i, c) in holes:
        if i < n:
            rows[i][COLS[c]] = float("nan")
    if env.mode == "sym":
        df = pd.DataFrame({c: objcol([r[c] for r in rows]) for c in cols}, columns=cols)
    else:
        df = pd.DataFrame({c: np.array([float(r[c]) for r in rows]) for c in cols}, columns=cols)
    if index == "gaps":
        df.index = [3 + 2 * i for i in range(n)]            # a selection of a larger table
    elif index == "shuffled":
        df.index = [(7 * i + 3) % n for i in range(n)] if n > 1 else [5]   # e.g. a table sorted by score
    path = env.path("m.em")
    if via == "motl":
        cm.Motl(df).write_out(path, "emmotl")
    else:
        cm.EmMotl(df).write_out(path)
    fmt, dtype, dims, get = env.file_view(path)
    env.check("file_is_float32", env.true() if dtype == "float32" else _false(env))
    env.check("header_dims_20_N_1", env.true() if tuple(int(d) for d in dims) == (20, n, 1) else _false(env))
    if tuple(int(d) for d in dims) != (20, n, 1):
        return

    def expect(i, c):
        if (i, COLS.index(c)) in [tuple(h) for h in holes]:
            return _f32(env, 0.0)
        return _f32(env, vals[i][c])
    for i in range(n):
        for j, c in enumerate(COLS):
            env.check("file_cell_%d_%s" % (i, c), env.eq(get(j, i, 0), expect(i, c)))
    back = cm.Motl.load(path).df
    env.check("loaded_columns_canonical", env.true() if list(back.columns) == COLS else _false(env))
    env.check("loaded_row_count", env.true() if back.shape[0] == n else _false(env))
    if list(back.columns) == COLS and back.shape[0] == n:
        for i in range(n):
            for c in COLS:
                env.check("loaded_cell_%d_%s" % (i, c), env.eq(back[c].iloc[i], expect(i, c)))


def h_sequence(env, n1=2, n2=3, via="emmotl", shrink=True):
    """Histories on ONE file name: write list A, load it, write a different list B (another N, other cells) to the same
    path, load again -> B; then load -> drop a row (remove_feature) -> write through the loaded object's own writer ->
    load -> the shortened list with a matching header."""
    cm = env.module("cryomotl")
    path = env.path("same.em")

    def table(tag, n):
        vals = [{c: env.real("%s%d_%s" % (tag, i, c), -1e6, 1e6) for c in COLS} for i in range(n)]
        if env.mode == "sym":
            df = pd.DataFrame({c: objcol([r[c] for r in vals]) for c in COLS}, columns=COLS)
        else:
            df = pd.DataFrame({c: np.array([float(r[c]) for r in vals]) for c in COLS}, columns=COLS)
        return vals, df

    def check_file(tag, vals):
        fmt, dtype, dims, get = env.file_view(path)
        env.check(tag + "_header_dims", env.true() if tuple(int(d) for d in dims) == (20, len(vals), 1) else _false(env))
        back = cm.Motl.load(path).df
        ok = list(back.columns) == COLS and back.shape[0] == len(vals)
        env.check(tag + "_loaded_shape", env.true() if ok else _false(env))
        if ok:
            for i in range(len(vals)):
                for c in COLS:
                    env.check("%s_loaded_cell_%d_%s" % (tag, i, c), env.eq(back[c].iloc[i], _f32(env, vals[i][c])))

    va, dfa = table("a", n1)
    (cm.EmMotl(dfa) if via == "emmotl" else cm.Motl(dfa)).write_out(*([path] if via == "emmotl" else [path, "emmotl"]))
    check_file("first", va)
    vb, dfb = table("b", n2)
    (cm.EmMotl(dfb) if via == "emmotl" else cm.Motl(dfb)).write_out(*([path] if via == "emmotl" else [path, "emmotl"]))
    check_file("second_write_to_same_name", vb)
    if shrink:
        # distinct concrete tomogram numbers so that remove_feature drops exactly row 0
        for i in range(n2):
            vb[i]["tomo_id"] = float(i + 1)
        _, dfb2 = (vb, None)
        if env.mode == "sym":
            dfb2 = pd.DataFrame({c: objcol([r[c] for r in vb]) for c in COLS}, columns=COLS)
        else:
            dfb2 = pd.DataFrame({c: np.array([float(r[c]) for r in vb]) for c in COLS}, columns=COLS)
        cm.EmMotl(dfb2).write_out(path)
        m = cm.EmMotl(path)                     # a list LOADED from the file
        m.remove_feature("tomo_id", 1)
        m.write_out(path)                       # ... written back through its own writer after it shrank
        check_file("loaded_shrunk_rewritten", vb[1:])
        # a missing value that enters AFTER construction (edited table, copy of another list) is written as 0 as well
        m2 = cm.EmMotl(dfb2.copy())
        m2.df.loc[m2.df.index[1], "score"] = np.nan
        m2.df["geom5"] = np.nan
        m3 = cm.EmMotl(m2)
        m3.write_out(path)
        vz = [dict(r) for r in vb]
        vz[1]["score"] = 0.0
        for r in vz:
            r["geom5"] = 0.0
        check_file("holes_made_after_construction", vz)


def h_extremes(env, via="emmotl"):
    """finite values at the ends of the float32 range (largest finite float32, a float64 that rounds to it, the smallest normal
    and a subnormal): concrete cells, written and loaded through the real path; cells around them stay symbolic"""
    cm = env.module("cryomotl")
    f32max = float(np.finfo(np.float32).max)
    ext = [f32max, -f32max, 3.4028234e38, 1.17549435e-38, 1e-45, -2.5e38]
    n = 2
    vals = [{c: env.real("v%d_%s" % (i, c), -1e6, 1e6) for c in COLS} for i in range(n)]
    k = 0
    for i in range(n):
        for c in ("score", "geom1", "x"):
            vals[i][c] = ext[k % len(ext)]
            k += 1
    if env.mode == "sym":
        df = pd.DataFrame({c: objcol([r[c] for r in vals]) for c in COLS}, columns=COLS)
    else:
        df = pd.DataFrame({c: np.array([float(r[c]) for r in vals]) for c in COLS}, columns=COLS)
    path = env.path("ext.em")
    (cm.EmMotl(df).write_out(path)) if via == "emmotl" else cm.Motl(df).write_out(path, "emmotl")
    fmt, dtype, dims, get = env.file_view(path)
    env.check("file_is_float32", env.true() if dtype == "float32" else _false(env))
    back = cm.Motl.load(path).df
    env.check("loaded_shape", env.true() if back.shape == (n, 20) else _false(env))
    if back.shape == (n, 20):
        for i in range(n):
            for c in COLS:
                env.check("loaded_cell_%d_%s" % (i, c), env.eq(back[c].iloc[i], _f32(env, vals[i][c])))


def orders(tier, seed):
    out = [list(range(20)), list(range(19, -1, -1))]
    for k in range(19):
        o = list(range(20)); o[k], o[k + 1] = o[k + 1], o[k]; out.append(o)
    for k in range(1, 20):
        out.append(list(range(k, 20)) + list(range(k)))
    rnd = random.Random(seed)
    for _ in range(12 if tier == "quick" else 120):
        o = list(range(20)); rnd.shuffle(o); out.append(o)
    return out


def jobs(tier, seed):
    j = []
    for k, o in enumerate(orders(tier, seed)):
        n = 1 + (k % (2 if tier == "quick" else 3))
        via = "motl" if k % 2 == 0 else "emmotl"
        holes = [] if k % 3 else [[0, (k * 7) % 20], [n - 1, (k * 3 + 5) % 20]]
        j.append(("h_roundtrip", {"n": n, "order": o, "via": via, "holes": holes, "index": ["default", "gaps", "shuffled"][k % 3]}))
    # N equal to / next to the number of fields (a square table is the only shape a transposition leaves well-formed)
    j.append(("h_roundtrip", {"n": 20, "order": list(range(5, 20)) + list(range(5)), "via": "motl", "holes": [[19, 0]]}))
    j.append(("h_roundtrip", {"n": 21, "order": list(range(20)), "via": "emmotl", "holes": [], "index": "gaps"}))
    # a particle with EVERY field missing (comes back as an all-zero row), and identifiers beyond 2**24
    j.append(("h_roundtrip", {"n": 3, "order": list(range(20)), "via": "emmotl", "holes": [[1, c] for c in range(20)]}))
    j.append(("h_roundtrip", {"n": 2, "order": list(reversed(range(20))), "via": "motl", "holes": [[0, c] for c in range(20)], "index": "gaps"}))
    j.append(("h_roundtrip", {"n": 1, "order": list(range(20)), "via": "emmotl", "wide": True}))
    j.append(("h_roundtrip", {"n": 2, "order": list(range(3, 20)) + [0, 1, 2], "via": "motl", "wide": True}))
    j.append(("h_extremes", {"via": "emmotl"}))
    j.append(("h_extremes", {"via": "motl"}))
    j.append(("h_sequence", {"n1": 2, "n2": 3, "via": "emmotl"}))
    j.append(("h_sequence", {"n1": 3, "n2": 1, "via": "motl", "shrink": False}))
    return j
