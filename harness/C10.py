"""C10 — cyclic symmetry expansion places subunits on the symmetry orbit."""
import numpy as np
import pandas as pd
from .common import *  # noqa

PROPERTY = "C10"
EXPLANATION = ("Real Motl.split_in_asymmetric_subunits (+ update_coordinates) on a real pandas frame with symbolic position, shift, "
               "orientation (unit-circle angles) and symbolic offset vector; scipy Rotation replaced by the polynomial rotation algebra, "
               "arctan2/sqrt by their contracts; Rz(360k/n) uses named exact trigonometric constants. n is enumerated.")
ASSUMPTIONS = ["1 symbolic particle (+1 concrete particle in the 2-particle jobs); positions in [-500,500], shifts in [-2,2], offset in [-50,50]^3",
               "n enumerated: quick {1,2,3,4,5,6,7,8,12,16}, thorough 1..64; spellings 'Cn', 'cn', n"]
OUTSIDE = ["float rounding (A0): k*360/n computed in floating point is identified with the exact rational angle (snapped within 1e-9)",
           "dihedral symmetry (the property is about cyclic symmetry)"]
BOUNDS = {"quick": {"n": [1, 2, 3, 4, 5, 6, 7, 8, 12, 16]}, "thorough": {"n": "1..64"}}
EXPECTED_EXCEPTIONS = ()
OPTS = {"qtimeout": 30.0}


def _false(env):
    return env.not_(env.true())


def h_split(env, n=3, spelling="num", particles=1, on_axis=False, index="default"):
    cm = env.module("cryomotl")
    p = particle(env, "p", lo=-500, hi=500)
    for c in ("shift_x", "shift_y", "shift_z"):
        env.assume(env.and_(env.ge(p[c], -2), env.le(p[c], 2)))
    p.update({"tomo_id": 2.0, "subtomo_id": 5.0, "score": env.real("score", -1, 1), "class": 3.0, "object_id": 4.0, "geom1": 0.25, "geom3": 7.0})
    rows = [p]
    if particles == 2:
        rows.append({"x": 10.0, "y": -20.0, "z": 30.5, "shift_x": 0.25, "shift_y": 0.0, "shift_z": -0.75, "phi": 90.0, "theta": 90.0, "psi": 0.0,
                     "tomo_id": 1.0, "subtomo_id": 2.0, "score": 0.5, "class": 1.0, "object_id": 1.0})
    m = mk_motl(env, cm, rows)
    if index == "dup":
        m.df.index = [0] * len(rows)              # two lists put together with pd.concat and no reset_index: repeated row labels
    elif index == "gaps":
        m.df.index = [7, 3][: len(rows)]
    if on_axis:
        s = [0.0, 0.0, env.real("s2", -50, 50)]
    else:
        s = [env.real("s%d" % k, -50, 50) for k in range(3)]
    sym = {"num": n, "C": "C%d" % n, "c": "c%d" % n}[spelling]
    sv = objcol(s) if env.mode == "sym" else np.array(s, dtype=float)
    out = m.split_in_asymmetric_subunits(sym, sv)
    df = out.df
    env.check("n_rows_per_parent", env.true() if df.shape[0] == n * len(rows) else _false(env))
    env.check("has_20_fields", env.true() if sorted(df.columns) == sorted(COLS) else _false(env))
    if df.shape[0] != n * len(rows):
        return
    subs = [float(v) for v in df["subtomo_id"]]
    env.check("unique_subtomo_ids", env.true() if len(set(subs)) == len(subs) else _false(env))
    # rows of a parent are identified by geom5 (parent id) and geom2 (subunit index 1..n)
    for parent in rows:
        pid = float(parent["subtomo_id"])
        mine = [i for i in range(df.shape[0]) if float(df["geom5"].iloc[i]) == pid]
        env.check("parent_recorded_%d" % int(pid), env.true() if len(mine) == n else _false(env))
        ks = sorted(float(df["geom2"].iloc[i]) for i in mine)
        env.check("subunit_indices_1_to_n_%d" % int(pid), env.true() if ks == [float(k + 1) for k in range(n)] else _false(env))
        if len(mine) != n:
            continue
        R = R_zxz(env, parent["phi"], parent["theta"], parent["psi"])
        centre = [parent["x"] + parent["shift_x"], parent["y"] + parent["shift_y"], parent["z"] + parent["shift_z"]]
        for i in mine:
            a = row(df, i)
            k = int(float(a["geom2"])) - 1
            Rk = mat_mul(R, Rz(env, env.const_angle(360.0 * k / n)))
            tag = "%d_k%d" % (int(pid), k)
            if parent is rows[0] or True:
                env.check("orientation_R_Rz_" + tag, mat_eq(env, R_zxz(env, a["phi"], a["theta"], a["psi"]), Rk))
                pos = [a["x"] + a["shift_x"], a["y"] + a["shift_y"], a["z"] + a["shift_z"]]
                exp = [c + d for c, d in zip(centre, mat_vec(Rk, s))]
                env.check("position_on_orbit_" + tag, vec_eq(env, pos, exp))
            for c in ("x", "y", "z"):
                env.check("integer_%s_%s" % (c, tag), env.is_int(a[c]))
                env.check("half_bound_%s_%s" % (c, tag), env.and_(env.le(a["shift_" + c], 0.5), env.ge(a["shift_" + c], -0.5)))
            env.check("parent_fields_kept_" + tag, env.and_(*[env.eq(a[c], parent.get(c, 0.0)) for c in
                                                               ("score", "tomo_id", "object_id", "class", "geom1", "geom3", "geom4", "subtomo_mean")]))


def jobs(tier, seed):
    ns = [1, 2, 3, 4, 5, 6, 7, 8, 12, 16] if tier == "quick" else list(range(1, 65))
    j = []
    for n in ns:
        sp = ["num", "C", "c"][n % 3]
        j.append(("h_split", {"n": n, "spelling": sp}))
    j += [("h_split", {"n": 4, "spelling": "C", "particles": 2}), ("h_split", {"n": 2, "spelling": "c", "particles": 2}),
          ("h_split", {"n": 2, "spelling": "C", "particles": 2, "index": "dup"}), ("h_split", {"n": 4, "spelling": "num", "particles": 2, "index": "dup"}),
          ("h_split", {"n": 3, "spelling": "c", "particles": 2, "index": "gaps"}), ("h_split", {"n": 1, "spelling": "C", "particles": 2}),
          ("h_split", {"n": 3, "spelling": "num", "on_axis": True}), ("h_split", {"n": 12, "spelling": "C"}), ("h_split", {"n": 10, "spelling": "c"})]
    if tier == "thorough":
        j += [("h_split", {"n": n, "spelling": "C", "particles": 2}) for n in (3, 6, 7)]
        j += [("h_split", {"n": n, "spelling": s}) for n in (10, 14, 20, 32) for s in ("C", "c")]
    return j
