"""C11 — map files round-trip voxels and axis order across MRC, REC and EM."""
import numpy as np
from .common import *  # noqa

PROPERTY = "C11"
EXPLANATION = ("Real cryomap.write/read/em2mrc/mrc2em/invert_contrast on lazy functional arrays: shape (nx,ny,nz) symbolic (1..48 per axis, non-cubic), "
               "voxel content an uninterpreted function, one symbolic voxel index; mrcfile/emfile are in-memory models recording header dims, dtype and "
               "payload order (concrete twin: the real libraries write bytes that an independent struct-based MRC/EM parser reads).")
ASSUMPTIONS = ["nx,ny,nz independent integers in [1,48]; voxel index inside the array; voxel values arbitrary reals (in-range for the dtype)",
               "dtype in {float32,float64,int16,int8}, data_type in {None, single}, transpose in {True, False}, extensions .mrc/.rec/.em enumerated"]
OUTSIDE = ["which float32 a float64 rounds to (uninterpreted cast shared by code and oracle)", "MRC extended headers / non-default voxel sizes"]
BOUNDS = {"quick": {"shape": "1..48 per axis symbolic"}, "thorough": {"shape": "1..48 per axis symbolic"}}
EXPECTED_EXCEPTIONS = ()


def _false(env):
    return env.not_(env.true())


def at(arr, idx):
    if hasattr(arr, "at"):
        return arr.at(idx)
    return arr[tuple(int(i) for i in idx)]


def _array(env, dtype, name="v"):
    n = [env.integer("n%s" % a, 1, 48) for a in "xyz"]
    i = [env.integer("i%s" % a, 0, 47) for a in "xyz"]
    env.assume(env.and_(*[env.lt(a, b) for a, b in zip(i, n)]))
    if env.mode == "sym":
        from sx import larray
        x = larray.uf_array(name, tuple(n), tag=dtype)
    else:
        rng = np.random.default_rng(5)
        shp = tuple(int(v) for v in n)
        if dtype.startswith("float"):
            x = (rng.standard_normal(shp) * 100).astype(dtype)
        else:
            x = rng.integers(-100, 100, size=shp).astype(dtype)
    return n, i, x


def _cast(env, v, src, dst):
    """value after narrowing src dtype -> dst dtype"""
    if src == dst or dst is None:
        return v
    if env.mode == "sym":
        from sx import core
        name = {"float32": "f32", "int16": "i16", "int8": "i8"}[dst]
        return core.SNum(core.ufun(name, 1)(core.zreal(v)))
    return np.dtype(dst).type(v)


def _disk_dtype(dtype, data_type):
    if data_type == "single":
        return "float32"
    return "float32" if dtype == "float64" else dtype


def _dims_eq(env, dims, n):
    return env.and_(*[env.eq(a, b) for a, b in zip(dims, n)])


def h_write_read(env, dtype="float64", ext=".mrc", data_type=None, transpose=True, base="map"):
    cm = env.module("cryomap")
    n, i, x = _array(env, dtype)
    path = env.path(base + ext)
    kw = {}
    if data_type == "single":
        kw["data_type"] = np.single
    cm.write(x, path, transpose=transpose, **kw)
    fmt, ddt, dims, get = env.file_view(path)
    disk = _disk_dtype(dtype, data_type)
    env.check("file_format", env.true() if fmt == ("em" if ext == ".em" else "mrc") else _false(env))
    env.check("disk_dtype", env.true() if ddt == disk else _false(env))
    exp = _cast(env, at(x, i), dtype, disk)
    if transpose:
        env.check("header_nx_ny_nz_match_shape", _dims_eq(env, dims, n))
        env.check("x_varies_fastest_on_disk", env.eq(get(i[0], i[1], i[2]), exp))
    else:
        env.check("header_is_reversed_shape", _dims_eq(env, dims, n[::-1]))
        env.check("last_axis_fastest_on_disk", env.eq(get(i[2], i[1], i[0]), exp))
    back = cm.read(path, transpose=transpose)
    env.check("read_shape", env.and_(*[env.eq(a, b) for a, b in zip(back.shape, n)]) if len(back.shape) == 3 else _false(env))
    env.check("read_voxel", env.eq(at(back, i), exp))
    back2 = cm.read(path, transpose=transpose, data_type=np.float64) if dtype != "float64" else None
    if back2 is not None:
        env.check("read_with_data_type_voxel", env.eq(at(back2, i), exp))


def h_overwrite(env, ext=".mrc"):
    cm = env.module("cryomap")
    n, i, x = _array(env, "float32")
    path = env.path("map" + ext)
    cm.write(x, path)
    y = x * 2 + 1 if env.mode == "conc" else x * 2 + 1
    raised = False
    try:
        cm.write(y, path, overwrite=False)
    except Exception:
        raised = True
    env.check("refuses_to_overwrite", env.true() if raised else _false(env))
    fmt, ddt, dims, get = env.file_view(path)
    env.check("file_unchanged_after_refusal", env.eq(get(i[0], i[1], i[2]), at(x, i)))
    cm.write(y, path, overwrite=True)
    fmt, ddt, dims, get = env.file_view(path)
    env.check("overwrite_true_replaces", env.eq(get(i[0], i[1], i[2]), at(y, i)))


def h_convert(env, direction="em2mrc", invert=False, explicit_name=False, dtype="float32", overwrite_case=False, base="vol", positional=False):
    cm = env.module("cryomap")
    n, i, x = _array(env, dtype)
    src_ext, dst_ext = (".em", ".mrc") if direction == "em2mrc" else (".mrc", ".em")
    src = env.path(base + src_ext)
    cm.write(x, src)
    kw = {}
    dst = env.path(base + dst_ext)          # documented default: same name, other extension
    if explicit_name:
        dst = env.path("other_name" + dst_ext)
        kw["output_name"] = dst
    fn = getattr(cm, direction)
    if overwrite_case:
        cm.write(x * 3, dst)
        raised = False
        try:
            if positional:
                fn(src, invert, False, dst)
            else:
                fn(src, invert=invert, overwrite=False, **kw)
        except Exception:
            raised = True
        env.check("conversion_refuses_to_overwrite", env.true() if raised else _false(env))
        fmt, ddt, dims, get = env.file_view(dst)
        env.check("target_unchanged_after_refusal", env.eq(get(i[0], i[1], i[2]), at(x, i) * 3))
        return
    if positional:
        # the documented parameter order is (map_name, invert, overwrite, output_name)
        fn(src, invert, True, kw["output_name"]) if explicit_name else fn(src, invert)
    else:
        fn(src, invert=invert, **kw)
    env.check("output_exists", env.true() if env.file_exists(dst) else _false(env))
    if not env.file_exists(dst):
        return
    fmt, ddt, dims, get = env.file_view(dst)
    env.check("output_format", env.true() if fmt == ("mrc" if direction == "em2mrc" else "em") else _false(env))
    env.check("output_dims", _dims_eq(env, dims, n))
    v = at(x, i)
    env.check("voxel_preserved" if not invert else "voxel_negated", env.eq(get(i[0], i[1], i[2]), -v if invert else v))
    env.check("output_dtype", env.true() if ddt == dtype else _false(env))


def h_invert(env, dtype="float64", ext=".mrc"):
    cm = env.module("cryomap")
    n, i, x = _array(env, dtype)
    path = env.path("inv" + ext)
    out = cm.invert_contrast(x, output_name=path)
    env.check("returned_negated", env.eq(at(out, i), -at(x, i)))
    fmt, ddt, dims, get = env.file_view(path)
    disk = "float32" if dtype == "float64" else dtype
    env.check("disk_dtype", env.true() if ddt == disk else _false(env))
    env.check("file_voxel_negated", env.eq(get(i[0], i[1], i[2]), _cast(env, -at(x, i), dtype, disk)))
    env.check("header_dims", _dims_eq(env, dims, n))


def jobs(tier, seed):
    j = []
    for dtype in ("float64", "float32", "int16", "int8"):
        for ext in (".mrc", ".rec", ".em"):
            j.append(("h_write_read", {"dtype": dtype, "ext": ext}))
    j += [("h_write_read", {"dtype": "float64", "ext": ".mrc", "transpose": False}), ("h_write_read", {"dtype": "int16", "ext": ".em", "transpose": False}),
          ("h_write_read", {"dtype": "float64", "ext": ".em", "transpose": False}), ("h_write_read", {"dtype": "float64", "ext": ".rec", "transpose": False}),
          ("h_write_read", {"dtype": "float32", "ext": ".em", "base": "ref.recentered"}), ("h_write_read", {"dtype": "int16", "ext": ".em", "base": "avg.aligned.st_2"}),
          ("h_write_read", {"dtype": "float32", "ext": ".mrc", "base": "run1.em_converted"}),
          ("h_write_read", {"dtype": "int16", "ext": ".mrc", "data_type": "single"}), ("h_write_read", {"dtype": "float64", "ext": ".em", "data_type": "single"}),
          ("h_overwrite", {"ext": ".mrc"}), ("h_overwrite", {"ext": ".em"}),
          ("h_convert", {"direction": "em2mrc"}), ("h_convert", {"direction": "mrc2em"}),
          ("h_convert", {"direction": "em2mrc", "invert": True, "explicit_name": True}), ("h_convert", {"direction": "mrc2em", "invert": True, "dtype": "int16"}),
          ("h_convert", {"direction": "em2mrc", "base": "template"}), ("h_convert", {"direction": "em2mrc", "base": "tomogram", "invert": True}),
          ("h_convert", {"direction": "mrc2em", "base": "scheme"}), ("h_convert", {"direction": "mrc2em", "base": "map.v2.rc", "dtype": "int16"}),
          ("h_convert", {"direction": "em2mrc", "base": "ref.recentered"}), ("h_convert", {"direction": "mrc2em", "base": "tilt.stack.mrc_converted", "invert": True}),
          ("h_convert", {"direction": "em2mrc", "invert": True, "positional": True}), ("h_convert", {"direction": "mrc2em", "invert": True, "positional": True, "explicit_name": True}),
          ("h_convert", {"direction": "em2mrc", "invert": True, "overwrite_case": True, "positional": True}), ("h_convert", {"direction": "mrc2em", "overwrite_case": True, "positional": True}),
          ("h_convert", {"direction": "em2mrc", "overwrite_case": True}), ("h_convert", {"direction": "mrc2em", "overwrite_case": True, "explicit_name": True}),
          ("h_invert", {"dtype": "float64", "ext": ".mrc"}), ("h_invert", {"dtype": "int16", "ext": ".em"})]
    if tier == "thorough":
        j += [("h_write_read", {"dtype": d, "ext": e, "transpose": False}) for d in ("float32", "int8") for e in (".rec", ".em")]
        j += [("h_convert", {"direction": d, "invert": inv, "dtype": t}) for d in ("em2mrc", "mrc2em") for inv in (False, True) for t in ("float32", "int8")]
    return j
