"""C18 — nearest-neighbour analysis equals brute force, invariant under rigid motion."""
import itertools, math
import numpy as np
import pandas as pd
from .common import *  # noqa

PROPERTY = "C18"
EXPLANATION = ("Real nnana.get_feature_nn_indices / get_nn_distances / get_nn_rotations / get_nn_stats (+geom.compare_rotations, Motl.get_motl_subset/"
               "get_coordinates/get_angles) on real pandas frames with symbolic positions, shifts, orientations (unit-circle angles) and pixel size; "
               "sklearn's KD-tree replaced by a brute-force specification whose comparisons fork the path; scipy Rotation by the polynomial algebra. "
               "Per path the reported neighbours, distances, particle-frame offsets, angular distances and relative orientations are compared with "
               "independent formulas; a second run on the rigidly moved lists must give the same values.")
ASSUMPTIONS = ["query list 1..2 particles, neighbour list 2..3, tomogram labels enumerated (incl. a tomogram missing from one list), k in {1,2}; row labels 0..N-1 and, in one job, descending gapped labels that differ between the two lists (as left by selections without index reset)",
               "positions in [-100,100]^3 (quick: neighbours differ from the query along one symbolic axis plus concrete offsets), pixel size in [0.1,20]; distance ties excluded",
               "rigid motion: rotation about the z axis by a symbolic angle plus a symbolic translation (quick); arbitrary zxz rotation (thorough)"]
OUTSIDE = ["lists with more than 3 particles per tomogram", "optimality of the KD-tree itself (the specification stub IS brute force): what is checked of the repository is the per-tomogram split, index->id mapping, scaling and frames around it",
           "float rounding (A0)"]
WITNESS_ONLY = ['quick tier: the two-run rigid-motion comparison of distance / angular distance / relative orientation (h_rigid without heavy=True) is evaluated on concrete witness inputs chosen by the solver (4 sign variants); the deciding argument is h_nn (all inputs) + h_motion_lemmas; the symbolic two-run comparison runs in the thorough tier']
BOUNDS = {"quick": {"query": 2, "neighbours": 3}, "thorough": {"query": 2, "neighbours": 3}}
EXPECTED_EXCEPTIONS = ()
OPTS = {"qtimeout": 8.0, "otimeout": 40.0, "max_paths": 450}
OPTS_THOROUGH = {'max_paths': 20000, 'budget_s': 1200}


def _false(env):
    return env.not_(env.true())


def _strip_abs_cap(a):
    """square of the acos argument min(|x|, 1): returned as the term min(x*x, 1) (|x|^2 = x^2; capping commutes with squaring)"""
    import z3
    def strip_abs(t):
        if z3.is_app(t) and t.decl().kind() == z3.Z3_OP_ITE:
            c0, t1, t2 = t.children()
            if z3.simplify(t1 + t2).eq(z3.RealVal(0)):
                return t1
        return None
    inner = strip_abs(a)
    if inner is not None:
        return inner * inner
    if z3.is_app(a) and a.decl().kind() == z3.Z3_OP_ITE:
        c0, t1, t2 = a.children()
        for x, one in ((t1, t2), (t2, t1)):
            if z3.is_rational_value(one) and one.numerator_as_long() == one.denominator_as_long():
                inner = strip_abs(x)
                if inner is not None:
                    sq = inner * inner
                    return z3.If(sq <= 1, sq, z3.RealVal(1))
    return a * a


def _conc(env, v):
    if env.mode == "sym":
        from sx import core
        return float(core.concretize(v)) if core.is_sym(v) else float(v)
    return float(v)


CUBE = [(0.0, 0.0, 0.0), (90.0, 90.0, 0.0), (180.0, 90.0, 270.0), (270.0, 180.0, 90.0), (0.0, 90.0, 180.0)]


def _part(env, tag, tomo, sub, sym_pos="xyz", base=(0.0, 0.0, 0.0), cube=None):
    p = {"tomo_id": float(tomo), "subtomo_id": float(sub), "score": 0.5, "class": 1.0, "object_id": 1.0}
    for k, c in enumerate("xyz"):
        if c in sym_pos:
            p[c] = env.real("%s_%s" % (c, tag), -100, 100)
            p["shift_" + c] = env.real("s%s_%s" % (c, tag), -2, 2)
        else:
            p[c] = base[k]
            p["shift_" + c] = 0.25 * (k + 1)
    for j, c in enumerate(("phi", "theta", "psi")):
        p[c] = env.angle("%s_%s" % (c, tag)) if cube is None else CUBE[cube % len(CUBE)][j]
    return p


def _pos(r):
    return [r["x"] + r["shift_x"], r["y"] + r["shift_y"], r["z"] + r["shift_z"]]


def _cos_half_sq(env, ang_deg):
    if env.mode == "sym":
        ok = hasattr(ang_deg, "arg") and getattr(ang_deg, "deg", False) and ang_deg.k == 2
        if not ok:
            return None
        from sx import core
        import z3
        return core.SNum(_strip_abs_cap(ang_deg.arg))
    return math.cos(math.radians(float(ang_deg)) / 2) ** 2


def _lists(env, config, sym_pos, cube=False):
    """config: (tomograms of the query particles, tomograms of the neighbour particles).  cube: concrete right-angle
    orientations (exact trigonometry, so the rotation comparison does not fork) - the forks are then the neighbour order only"""
    qa, na = config
    Q = [_part(env, "q%d" % i, t, 10 + i, sym_pos, base=(1.0 * i, 2.0, 3.0), cube=(i if cube else None)) for i, t in enumerate(qa)]
    N = [_part(env, "n%d" % i, t, 20 + i * 3, sym_pos, base=(5.0 + 4.0 * i, -1.0 * i, 2.0 * i), cube=(i + 2 if cube else None)) for i, t in enumerate(na)]
    return Q, N


def _check_stats(env, st, Q, N, k, px, tag=""):
    """st: table returned by get_nn_stats; returns the list of (query index, neighbour index) per row"""
    pairs = []
    nrows = st.shape[0]
    exp_rows = sum(min(k, sum(1 for n in N if n["tomo_id"] == q["tomo_id"])) for q in Q)
    env.check(tag + "row_count", env.true() if nrows == exp_rows else _false(env))
    by_q = {}
    for j in range(nrows):
        r = {c: st[c].iloc[j] for c in st.columns}
        qi = [i for i, q in enumerate(Q) if q["subtomo_id"] == float(r["subtomo_idx"])]
        ni = [i for i, n in enumerate(N) if n["subtomo_id"] == float(r["subtomo_nn_idx"])]
        env.check(tag + "row_%d_ids_known" % j, env.true() if (len(qi) == 1 and len(ni) == 1) else _false(env))
        if len(qi) != 1 or len(ni) != 1:
            continue
        qi, ni = qi[0], ni[0]
        pairs.append((qi, ni, r))
        by_q.setdefault(qi, []).append(ni)
        q, n = Q[qi], N[ni]
        env.check(tag + "row_%d_same_tomogram" % j, env.true() if q["tomo_id"] == n["tomo_id"] else _false(env))
        d = [(b - a) * px for a, b in zip(_pos(q), _pos(n))]
        d2 = sum(v * v for v in d)
        env.check(tag + "row_%d_distance" % j, env.and_(env.eq(r["distance"] * r["distance"], d2), env.ge(r["distance"], 0.0)))
        env.check(tag + "row_%d_offset" % j, vec_eq(env, [r["coord_x"], r["coord_y"], r["coord_z"]], d))
        Rq = R_zxz(env, q["phi"], q["theta"], q["psi"])
        Rn = R_zxz(env, n["phi"], n["theta"], n["psi"])
        env.check(tag + "row_%d_offset_in_particle_frame" % j, vec_eq(env, [r["coord_rx"], r["coord_ry"], r["coord_rz"]], mat_vec(mat_T(Rq), d)))
        ch = _cos_half_sq(env, r["angular_distance"])
        if ch is None:
            env.check(tag + "row_%d_angular_distance_form" % j, _false(env))
        else:
            tr = sum(Rq[a][b] * Rn[a][b] for a in range(3) for b in range(3))
            env.check(tag + "row_%d_angular_distance" % j, env.eq(ch, (1 + tr) / 4))
        rel = mat_mul(mat_T(Rq), Rn)
        env.check(tag + "row_%d_relative_orientation_z_axis" % j, vec_eq(env, [r["rot_x"], r["rot_y"], r["rot_z"]], [rel[a][2] for a in range(3)]))
        env.check(tag + "row_%d_relative_orientation_angles" % j, mat_eq(env, R_zxz(env, r["phi"], r["theta"], r["psi"]), rel))
    # k closest of the same tomogram, ascending
    for qi, q in enumerate(Q):
        cands = [i for i, n in enumerate(N) if n["tomo_id"] == q["tomo_id"]]
        got = by_q.get(qi, [])
        env.check(tag + "query_%d_number_of_neighbours" % qi, env.true() if len(got) == min(k, len(cands)) else _false(env))
        d2 = {i: sum((b - a) * (b - a) for a, b in zip(_pos(q), _pos(N[i]))) for i in cands}
        for rank, ni in enumerate(got):
            if ni not in d2:
                continue
            for other in cands:
                if other == ni:
                    continue
                if other in got[:rank]:
                    env.check(tag + "query_%d_rank_%d_after_%d" % (qi, rank, other), env.le(d2[other], d2[ni]))
                else:
                    env.check(tag + "query_%d_rank_%d_closer_than_%d" % (qi, rank, other), env.le(d2[ni], d2[other]))
    return pairs


CONFIGS = {"one": ((1,), (1, 1)), "two": ((1, 2), (1, 1, 2)), "disjoint": ((1, 3), (2, 1, 1)), "three": ((1,), (1, 1, 1)),
           "rev": ((3, 1), (1, 3)),
           "small_first": ((1, 2), (1, 2, 2)),
           "pair": ((1, 1), (1, 1))}             # two query particles and two candidates in ONE tomogram: with k = 2 the rank-major / particle-major order of the rows matters   # the tomogram with FEWER than k neighbours comes before a larger one          # query list stored with tomogram 3 before tomogram 1 (a merged list), both shared


def h_nn(env, config="one", k=1, sym_pos="x", cube=False, labels=False):
    nn = env.module("nnana")
    cm = env.module("cryomotl")
    Q, N = _lists(env, CONFIGS[config], sym_pos, cube)
    px = env.real("pixel", 0.1, 20)
    # ties excluded
    for q in Q:
        cs = [n for n in N if n["tomo_id"] == q["tomo_id"]]
        for a, b in itertools.combinations(cs, 2):
            da = sum((u - v) * (u - v) for u, v in zip(_pos(q), _pos(a)))
            db = sum((u - v) * (u - v) for u, v in zip(_pos(q), _pos(b)))
            env.assume(env.not_(env.eq(da, db)))
    ma, mn = mk_motl(env, cm, Q), mk_motl(env, cm, N)
    if labels:
        # row labels as a selection without index reset leaves them: descending and gapped, different in the two lists (round 5, lesson of C07-10)
        ma.df.index = [2 * len(Q) - 2 * i + 1 for i in range(len(Q))]
        mn.df.index = [3 * len(N) - 3 * i + 2 for i in range(len(N))]
    st = nn.get_nn_stats(ma, mn, pixel_size=px, nn_number=k)
    _check_stats(env, st, Q, N, k, px)


def h_rigid(env, config="one", k=1, sym_pos="x", general=False, heavy=False):
    """move a whole tomogram rigidly (all positions and orientations by Q, then translate): nothing reported changes"""
    nn = env.module("nnana")
    cm = env.module("cryomotl")
    Q, N = _lists(env, CONFIGS[config], sym_pos)
    px = env.real("pixel", 0.1, 20)
    for q in Q:
        cs = [n for n in N if n["tomo_id"] == q["tomo_id"]]
        for a, b in itertools.combinations(cs, 2):
            da = sum((u - v) * (u - v) for u, v in zip(_pos(q), _pos(a)))
            db = sum((u - v) * (u - v) for u, v in zip(_pos(q), _pos(b)))
            env.assume(env.not_(env.eq(da, db)))
    if general:
        qa = [env.angle("mq%d" % j) for j in range(3)]
    else:
        qa = [env.angle("mq0"), env.const_angle(0.0) if env.mode == "sym" else 0.0, env.const_angle(0.0) if env.mode == "sym" else 0.0]
    QM = R_zxz(env, *qa)
    t = [env.real("t%d" % j, -50, 50) for j in range(3)]
    srot = nn.srot
    rq = srot.from_euler("zxz", objcol(qa) if env.mode == "sym" else np.array([float(a) for a in qa]), degrees=True)

    def moved(p):
        m = dict(p)
        newp = [a + b for a, b in zip(mat_vec(QM, _pos(p)), t)]
        m["x"], m["y"], m["z"] = newp
        m["shift_x"] = m["shift_y"] = m["shift_z"] = 0.0
        if not general:
            # Rz(a) * [Rz(psi) Rx(theta) Rz(phi)] = Rz(psi + a) Rx(theta) Rz(phi): only psi changes
            m["psi"] = p["psi"] + qa[0]
            return m
        r = srot.from_euler("zxz", objcol([p["phi"], p["theta"], p["psi"]]) if env.mode == "sym" else np.array([p["phi"], p["theta"], p["psi"]]), degrees=True)
        e = (rq * r).as_euler("zxz", degrees=True)
        m["phi"], m["theta"], m["psi"] = e[0], e[1], e[2]
        return m
    if env.mode == "sym" and not heavy:
        # quick tier: the solver only supplies witness inputs (one per variant of the sign pattern below); the two runs are
        # compared on the concrete witness run.  The deciding argument for invariance is h_nn (all inputs) + h_motion_lemmas.
        var = int(_conc(env, env.choice("variant", [0, 1, 2, 3])))
        c0 = env.cos(qa[0]) if not general else env.cos(qa[0])
        s0 = env.sin(qa[0])
        env.assume(env.gt(c0, 0.1) if var & 1 else env.lt(c0, -0.1))
        env.assume(env.gt(s0, 0.1) if var & 2 else env.lt(s0, -0.1))
        return
    if env.mode == "conc" and not heavy:
        env.choice("variant", [0, 1, 2, 3])
    st1 = nn.get_nn_stats(mk_motl(env, cm, Q), mk_motl(env, cm, N), pixel_size=px, nn_number=k)
    Q2, N2 = [moved(p) for p in Q], [moved(p) for p in N]
    st2 = nn.get_nn_stats(mk_motl(env, cm, Q2), mk_motl(env, cm, N2), pixel_size=px, nn_number=k)
    env.check("same_number_of_rows", env.true() if st1.shape[0] == st2.shape[0] else _false(env))
    if st1.shape[0] != st2.shape[0]:
        return
    for j in range(st1.shape[0]):
        a = {c: st1[c].iloc[j] for c in st1.columns}
        b = {c: st2[c].iloc[j] for c in st2.columns}
        env.check("row_%d_same_neighbour" % j, env.true() if (float(a["subtomo_idx"]), float(a["subtomo_nn_idx"])) == (float(b["subtomo_idx"]), float(b["subtomo_nn_idx"])) else _false(env))
        env.check("row_%d_particle_frame_offset_invariant" % j, vec_eq(env, [a["coord_rx"], a["coord_ry"], a["coord_rz"]], [b["coord_rx"], b["coord_ry"], b["coord_rz"]]))
        if env.mode == "conc" or heavy:
            # the remaining equalities are consequences of the per-row formulas (h_nn) and h_motion_lemmas; the direct
            # two-run comparison is non-linear in ~60 symbols: it is evaluated on the concrete witness run, and
            # symbolically only in the thorough tier
            env.check("row_%d_distance_invariant" % j, env.eq(a["distance"] * a["distance"], b["distance"] * b["distance"]))
            ca, cb = _cos_half_sq(env, a["angular_distance"]), _cos_half_sq(env, b["angular_distance"])
            if ca is not None and cb is not None:
                env.check("row_%d_angular_distance_invariant" % j, env.eq(ca, cb))
            env.check("row_%d_relative_orientation_invariant" % j, mat_eq(env, R_zxz(env, a["phi"], a["theta"], a["psi"]), R_zxz(env, b["phi"], b["theta"], b["psi"])))


def h_motion_lemmas(env):
    """The invariance clauses follow from the per-row formulas (h_nn, valid for ARBITRARY lists, hence also for the moved
    ones) and these facts about an orthogonal Q (Q^T Q = I), decided here over generic matrices/vectors.  The solvers
    need the proof idea as hints: each orthogonality equation multiplied by a monomial of the other factors."""
    def mat(nm):
        return [[env.real("%s%d%d" % (nm, i, j), -2, 2) for j in range(3)] for i in range(3)]
    A, B, Q = mat("a"), mat("b"), mat("q")
    u = [env.real("u%d" % i, -5, 5) for i in range(3)]
    G = mat_mul(mat_T(Q), Q)
    env.assume(env.and_(*[env.eq(G[m][n], 1.0 if m == n else 0.0) for m in range(3) for n in range(3)]))
    if env.mode == "sym":
        for m in range(3):
            for n in range(3):
                h = G[m][n] - (1.0 if m == n else 0.0)
                env.assume(env.eq(h * u[m] * u[n], 0.0))
                for i in range(3):
                    env.assume(env.eq(h * A[m][i] * u[n], 0.0))
                    for jj in range(3):
                        env.assume(env.eq(h * A[m][i] * B[n][jj], 0.0))
    Qu = mat_vec(Q, u)
    env.check("distance_invariant_under_rotation", env.eq(sum(v * v for v in Qu), sum(v * v for v in u)))
    QA, QB = mat_mul(Q, A), mat_mul(Q, B)
    env.check("particle_frame_offset_invariant", vec_eq(env, mat_vec(mat_T(QA), Qu), mat_vec(mat_T(A), u)))
    env.check("relative_orientation_invariant", mat_eq(env, mat_mul(mat_T(QA), QB), mat_mul(mat_T(A), B)))
    env.check("relative_rotation_trace_invariant", env.eq(sum(QA[k][i] * QB[k][i] for i in range(3) for k in range(3)), sum(A[k][i] * B[k][i] for i in range(3) for k in range(3))))


def jobs(tier, seed):
    j = [("h_nn", {"config": "one", "k": 1, "sym_pos": "x"}), ("h_nn", {"config": "three", "k": 1, "sym_pos": "x"}),
         ("h_nn", {"config": "disjoint", "k": 1, "sym_pos": "x"}), ("h_nn", {"config": "one", "k": 1, "sym_pos": "x", "labels": True}),
         ("h_nn", {"config": "one", "k": 1, "sym_pos": "xyz"}),
         ("h_nn", {"config": "one", "k": 2, "sym_pos": "xyz", "cube": True}), ("h_nn", {"config": "small_first", "k": 2, "sym_pos": "x", "cube": True}),
         ("h_nn", {"config": "disjoint", "k": 2, "sym_pos": "x", "cube": True}), ("h_nn", {"config": "rev", "k": 1, "sym_pos": "x", "cube": True}), ("h_nn", {"config": "pair", "k": 2, "sym_pos": "x", "cube": True}), 
         ("h_rigid", {"config": "one", "k": 1, "sym_pos": "x"}), ("h_rigid", {"config": "two", "k": 2, "sym_pos": "x", "general": True}), ("h_motion_lemmas", {})]
    if tier == "thorough":
        j += [("h_rigid", {"config": "one", "k": 1, "sym_pos": "x", "heavy": True}), ("h_nn", {"config": "two", "k": 2, "sym_pos": "x", "cube": True})]
        j += [("h_nn", {"config": "three", "k": 3, "sym_pos": "xy", "cube": True}), ("h_nn", {"config": "one", "k": 2, "sym_pos": "x"}), ("h_nn", {"config": "two", "k": 2, "sym_pos": "x"}), ("h_nn", {"config": "three", "k": 2, "sym_pos": "x"}),
              ("h_nn", {"config": "two", "k": 2, "sym_pos": "xyz"}), ("h_nn", {"config": "three", "k": 3, "sym_pos": "xy"}),
              ("h_rigid", {"config": "two", "k": 2, "sym_pos": "x"}), ("h_rigid", {"config": "one", "k": 1, "sym_pos": "x", "general": True})]
    return j
