"""C13 — masks: analytic shapes and voxel-wise set algebra."""
import numpy as np
from .common import *  # noqa

PROPERTY = "C13"
EXPLANATION = ("Real cryomask.spherical_mask / cylindrical_mask / spherical_shell_mask / ellipsoid_mask / generate_mask / union / intersection / "
               "subtraction / difference executed on lazy functional arrays: box size (nx,ny,nz), centre, radius/height and the voxel index are "
               "solver integers/reals, so one run decides membership of every voxel of every box shape in the range at once.")
ASSUMPTIONS = ["box extents independent integers in [6,48]; centre any voxel of the box; radius real in [0.5,70]; height integer in [1,100]; voxel index inside the box",
               "algebra: 1..3 masks given as arbitrary {0,1}-valued (binary) or [0,1]-valued (soft) voxel functions of a common symbolic shape"]
OUTSIDE = ["'blurred outwards leaves the core at 1 within 1e-3' and the Gaussian edge profile (numerics of skimage.filters.gaussian)",
           "ellipsoid: box shapes are an enumerated family of even shapes (reshape(3,-1) needs concrete extents); centre, radii, voxel stay symbolic"]
WITNESS_ONLY = ["float-level: hard spheres of integer radius 1..24 in a 51^3 box equal the integer predicate dx^2+dy^2+dz^2 <= r^2 voxel by voxel (boundary voxels at distance exactly r included) - concrete run of h_sphere", "'blurred outwards leaves the core at 1 within 1e-3' (core_at_1_within_1e-3): evaluated with the real skimage only on the concrete witness input of each path; not counted as discharged"]
BOUNDS = {"quick": {"box": "6..48 per axis symbolic", "ellipsoid_shapes": 3}, "thorough": {"box": "6..48 per axis symbolic", "ellipsoid_shapes": 12}}
EXPECTED_EXCEPTIONS = ()
OPTS = {"qtimeout": 30.0}


def _false(env):
    return env.not_(env.true())


def at(arr, idx):
    if hasattr(arr, "at"):
        return arr.at(idx)
    return arr[tuple(int(i) for i in idx)]


def _box(env, lo=6, hi=48):
    n = [env.integer("n%s" % a, lo, hi) for a in "xyz"]
    i = [env.integer("i%s" % a, 0, hi) for a in "xyz"]
    env.assume(env.and_(*[env.lt(a, b) for a, b in zip(i, n)]))
    return n, i


def _centre(env, n, explicit=True):
    if not explicit:
        return None, [v // 2 for v in n]
    c = [env.integer("c%s" % a, 0, 48) for a in "xyz"]
    env.assume(env.and_(*[env.lt(a, b) for a, b in zip(c, n)]))
    return c, c


def _is_one(env, v):
    return env.eq(v, 1.0)


def _binary(env, name, v, inside):
    env.check(name + "_inside_is_1", env.implies(inside, env.eq(v, 1.0)))
    env.check(name + "_outside_is_0", env.implies(env.not_(inside), env.eq(v, 0.0)))


def _d2(idx, c, axes=(0, 1, 2)):
    return sum((idx[a] - c[a]) * (idx[a] - c[a]) for a in axes)


def h_sphere(env, explicit_centre=True, default_radius=False):
    cmk = env.module("cryomask")
    n, i = _box(env, 6, 12 if default_radius else 48)
    carg, c = _centre(env, n, explicit_centre)
    kw = {}
    r = None
    if not default_radius:
        r = env.real("r", 0.5, 70)
        kw["radius"] = r
    if carg is not None:
        kw["center"] = list(carg)
    mask = cmk.spherical_mask(list(n), **kw)
    shp = mask.shape
    env.check("shape", env.and_(*[env.eq(a, b) for a, b in zip(shp, n)]))
    if r is not None:
        _binary(env, "sphere", at(mask, i), env.le(_d2(i, c), r * r))
        if env.mode == "conc" and explicit_centre:
            # float-level clause: for integer radii the boundary voxels (distance exactly r) belong to the sphere; compared with the
            # exact integer predicate dx^2+dy^2+dz^2 <= r^2 over the whole box, radii 1..24 (concrete run only)
            g = np.meshgrid(np.arange(51), np.arange(51), np.arange(51), indexing="ij")
            d2i = (g[0] - 25) ** 2 + (g[1] - 25) ** 2 + (g[2] - 25) ** 2
            bad = [rr for rr in range(1, 25) if not np.array_equal(np.asarray(cmk.spherical_mask(51, radius=rr, center=[25, 25, 25])) > 0.5, d2i <= rr * rr)]
            env.check("integer_radius_spheres_match_the_integer_predicate", len(bad) == 0)
    else:
        # documented default radius: half (floor) of the smallest extent
        v = at(mask, i)
        for a in range(3):
            smallest = env.and_(*[env.le(n[a], n[b]) for b in range(3)])
            ra = env.integer("rhalf%d" % a, 0, 48)          # ra = floor(n[a]/2), stated linearly
            env.assume(env.and_(env.le(ra * 2, n[a]), env.lt(n[a], ra * 2 + 2)))
            inside = env.le(_d2(i, c), ra * ra)
            env.check("default_radius_axis%d_inside_is_1" % a, env.implies(env.and_(smallest, inside), env.eq(v, 1.0)))
            env.check("default_radius_axis%d_outside_is_0" % a, env.implies(env.and_(smallest, env.not_(inside)), env.eq(v, 0.0)))


def h_cylinder(env, explicit_centre=True):
    cmk = env.module("cryomask")
    n, i = _box(env)
    carg, c = _centre(env, n, explicit_centre)
    r = env.integer("r", 1, 70)
    h = env.integer("h", 1, 100)
    kw = {"radius": r, "height": h}
    if carg is not None:
        kw["center"] = list(carg)
    mask = cmk.cylindrical_mask(list(n), **kw)
    hh = env.integer("hh", 0, 50)
    env.assume(env.and_(env.le(hh * 2, h), env.lt(h, hh * 2 + 2)))     # hh = floor(h/2)
    dz = i[2] - c[2]
    inside = env.and_(env.le(_d2(i, c, (0, 1)), r * r), env.le(dz, hh), env.ge(dz, -hh))
    _binary(env, "cylinder", at(mask, i), inside)


def h_shell(env):
    cmk = env.module("cryomask")
    n, i = _box(env)
    carg, c = _centre(env, n, True)
    r = env.real("r", 2, 60)
    t = env.real("t", 0.5, 8)
    env.assume(env.gt(r - t / 2, 0.25))
    mask = cmk.spherical_shell_mask(list(n), t, radius=r, center=list(carg))
    d2 = _d2(i, c)
    ro, ri = r + t / 2, r - t / 2
    _binary(env, "shell", at(mask, i), env.and_(env.le(d2, ro * ro), env.gt(d2, ri * ri)))


def h_generate(env, name="sphere_r5", size=None):
    """name-based generator == direct constructor, voxel by voxel (concrete sizes come from the name)"""
    cmk = env.module("cryomask")
    env.option("lazy", True)       # concrete sizes, but keep the volumes functional so that one symbolic voxel covers them all
    # the shape and its parameters are read off the name by the harness itself (not by the code under test)
    parts = name.split("_")
    shape = {"sphere": "sphere", "cylinder": "cylinder", "s": "s_shell"}[parts[0]]
    specs = [int("".join(ch for ch in p_ if ch.isdigit())) for p_ in parts if any(ch.isdigit() for ch in p_)]
    pshape, pspecs = cmk.parse_shape_string(name)
    env.check("name_parsed_as_written", env.true() if (pshape == shape and [int(v) for v in pspecs] == specs) else _false(env))
    g = cmk.generate_mask(name) if size is None else cmk.generate_mask(name, mask_size=size)
    ms = g.shape[0]
    i = [env.integer("i%s" % a, 0, 200) for a in "xyz"]
    env.assume(env.and_(*[env.lt(a, int(b)) for a, b in zip(i, g.shape)]))
    if shape == "sphere":
        d = cmk.spherical_mask(mask_size=ms, radius=specs[0])
        inside = env.le(_d2(i, [ms // 2] * 3), specs[0] ** 2)
    elif shape == "cylinder":
        d = cmk.cylindrical_mask(mask_size=ms, radius=specs[0], height=specs[1])
        dz = i[2] - ms // 2
        inside = env.and_(env.le(_d2(i, [ms // 2] * 3, (0, 1)), specs[0] ** 2), env.le(dz, specs[1] // 2), env.ge(dz, -(specs[1] // 2)))
    else:
        d = cmk.spherical_shell_mask(mask_size=ms, shell_thickness=specs[1], radius=specs[0])
        d2 = _d2(i, [ms // 2] * 3)
        inside = env.and_(env.le(d2, (specs[0] + specs[1] / 2) ** 2), env.gt(d2, (specs[0] - specs[1] / 2) ** 2))
    env.check("same_shape_as_direct_constructor", env.true() if tuple(g.shape) == tuple(d.shape) else _false(env))
    gv, dv = at(g, i), at(d, i)
    env.check("generator_equals_constructor", env.eq(gv, dv))
    _binary(env, "generated_" + shape, gv, inside)


def h_ellipsoid(env, shape=(6, 8, 10), explicit_centre=True):
    cmk = env.module("cryomask")
    env.option("lazy", True)
    n = [int(v) for v in shape]
    i = [env.integer("i%s" % a, 0, n[k] - 1) for k, a in enumerate("xyz")]
    kw = {}
    if explicit_centre:
        c = [env.integer("c%s" % a, 0, n[k] - 1) for k, a in enumerate("xyz")]
        kw["center"] = list(c)
    else:
        c = [v // 2 for v in n]
    r = [env.integer("r%s" % a, 1, 12) for a in "xyz"]
    mask = cmk.ellipsoid_mask(list(n), radii=list(r), **kw)
    v = at(mask, i)
    # sum(((i-c)/r)^2) <= 1
    lhs = sum(((i[a] - c[a]) * (i[a] - c[a])) / (r[a] * r[a]) for a in range(3))
    inside = env.le(lhs, 1.0)
    env.check("ellipsoid_inside_is_set", env.implies(inside, _truthy(env, v)))
    env.check("ellipsoid_outside_is_clear", env.implies(env.not_(inside), env.not_(_truthy(env, v))))


def h_eshell(env, shape=(8, 10, 12)):
    cmk = env.module("cryomask")
    env.option("lazy", True)
    n = [int(v) for v in shape]
    i = [env.integer("i%s" % a, 0, n[k] - 1) for k, a in enumerate("xyz")]
    c = [env.integer("c%s" % a, 0, n[k] - 1) for k, a in enumerate("xyz")]
    r = [env.integer("r%s" % a, 2, 12) for a in "xyz"]
    t = 2
    mask = cmk.ellipsoid_shell_mask(list(n), t, radii=list(r), center=list(c))
    v = at(mask, i)

    def ins(rad):
        return env.le(sum(((i[a] - c[a]) * (i[a] - c[a])) / (rad[a] * rad[a]) for a in range(3)), 1.0)
    outer, inner = ins([x + t / 2 for x in r]), ins([x - t / 2 for x in r])
    env.check("shell_is_outer_minus_inner_set", env.implies(env.and_(outer, env.not_(inner)), _truthy(env, v)))
    env.check("shell_is_outer_minus_inner_clear", env.implies(env.not_(env.and_(outer, env.not_(inner))), env.not_(_truthy(env, v))))


def _truthy(env, v):
    if isinstance(v, (bool, np.bool_)):
        return env.true() if v else _false(env)
    if env.mode == "sym":
        from sx import larray
        return larray._b(v) if not isinstance(v, bool) else (env.true() if v else _false(env))
    return env.true() if bool(v) else _false(env)


def h_soft(env, kind="sphere", outwards=True, sigma=1, face=True):
    """Soft-edged masks stay within [0,1] (decided: Gaussian contract + solver-proved range of the hard mask).  The
    'core stays at 1 within 1e-3' clause is numerics of the Gaussian: it is evaluated only on the concrete witness run."""
    cmk = env.module("cryomask")
    n, i = _box(env, 12, 24)
    c = [env.integer("c%s" % a, 0, 24) for a in "xyz"]
    env.assume(env.and_(*[env.lt(a, b) for a, b in zip(c, n)]))
    if face:
        env.assume(env.eq(c[0], 0))           # centre on a box face: the blur reaches over the border
    r = env.integer("r", 2, 5)
    if kind == "sphere":
        mask = cmk.spherical_mask(list(n), radius=r, center=list(c), gaussian=sigma, gaussian_outwards=outwards)
        core_vox = env.le(_d2(i, c), r * r)
    else:
        h = env.integer("h", 2, 30)
        mask = cmk.cylindrical_mask(list(n), radius=r, height=h, center=list(c), gaussian=sigma, gaussian_outwards=outwards)
        dz = i[2] - c[2]
        core_vox = env.and_(env.le(_d2(i, c, (0, 1)), r * r), env.le(dz * 2, h - 1), env.ge(dz * 2, -(h - 1)))
    v = at(mask, i)
    env.check("soft_mask_in_0_1", env.and_(env.ge(v, 0.0), env.le(v, 1.0)))
    if env.mode == "conc" and outwards:
        env.check("core_at_1_within_1e-3", env.implies(core_vox, float(v) >= 1 - 1e-3))
        # the concrete run has the whole array: EVERY voxel of the requested hard mask keeps the value 1 within 1e-3
        M = np.asarray(mask, dtype=float)
        g = np.meshgrid(*[np.arange(int(k)) for k in n], indexing="ij")
        cc, rr = [float(q) for q in c], float(r)
        if kind == "sphere":
            core = (g[0] - cc[0]) ** 2 + (g[1] - cc[1]) ** 2 + (g[2] - cc[2]) ** 2 <= rr * rr
        else:
            core = ((g[0] - cc[0]) ** 2 + (g[1] - cc[1]) ** 2 <= rr * rr) & (np.abs(g[2] - cc[2]) * 2 <= float(h) - 1)
        env.check("whole_core_at_1_within_1e-3", bool(core.sum() == 0 or M[core].min() >= 1 - 1e-3))


def _masks(env, n, k, soft):
    if env.mode == "sym":
        from sx import larray
        return [larray.uf_array("m%d" % q, tuple(n), rng=(0, 1), binary=not soft) for q in range(k)]
    # concrete twin: arrays that realise the model's voxel values at the probed index, pseudo-random elsewhere
    rng = np.random.default_rng(7)
    shp = tuple(int(v) for v in n)
    out = []
    for q in range(k):
        a = rng.random(shp) if soft else (rng.random(shp) > 0.5).astype(float)
        out.append(a)
    return out


def h_algebra(env, op="union", k=2, soft=False):
    cmk = env.module("cryomask")
    n, i = _box(env, 6, 12)
    masks = _masks(env, n, k, soft)
    vals = [at(m, i) for m in masks]
    before = [getattr(m, "version", None) for m in masks]
    copies = [np.array(m, copy=True) for m in masks] if env.mode == "conc" else None
    lst = list(masks)
    out = getattr(cmk, op)(lst)
    env.check("callers_list_of_masks_unchanged", env.true() if (len(lst) == len(masks) and all(a is b for a, b in zip(lst, masks))) else _false(env))
    if len(lst) == len(masks):
        again = getattr(cmk, op)(lst)          # the same list object serves a second call
        env.check("second_call_on_the_same_list_gives_the_same_result", env.eq(at(again, i), at(out, i)))
    v = at(out, i)
    env.check("result_in_0_1", env.and_(env.ge(v, 0.0), env.le(v, 1.0)))
    if not soft:
        b = [env.eq(x, 1.0) for x in vals]
        if op == "union":
            exp = env.or_(*b)
        elif op == "intersection":
            exp = env.and_(*b)
        elif op == "subtraction":
            exp = env.and_(b[0], *[env.not_(x) for x in b[1:]])
        else:   # difference (XOR for two masks; for more: in some but not all)
            exp = env.and_(env.or_(*b), env.not_(env.and_(*b)))
        _binary(env, op, v, exp)
    # inputs untouched
    if env.mode == "sym":
        for q, m in enumerate(masks):
            env.check("input_%d_not_modified" % q, env.true() if m.version == before[q] else _false(env))
    else:
        for q, m in enumerate(masks):
            env.check("input_%d_not_modified" % q, env.true() if np.array_equal(m, copies[q]) else _false(env))


def jobs(tier, seed):
    j = [("h_sphere", {}), ("h_sphere", {"explicit_centre": False}), ("h_sphere", {"default_radius": True, "explicit_centre": False}),
         ("h_cylinder", {}), ("h_cylinder", {"explicit_centre": False}), ("h_shell", {}),
         ("h_generate", {"name": "sphere_r5"}), ("h_generate", {"name": "cylinder_r3_h7"}), ("h_generate", {"name": "s_shell_r6_s2"}),
         ("h_generate", {"name": "cylinder_r4_h10", "size": 16}), ("h_generate", {"name": "s_shell_r14_s12"}), ("h_generate", {"name": "sphere_r12"}), ("h_generate", {"name": "cylinder_r11_h20"})]
    for op in ("union", "intersection", "subtraction", "difference"):
        j.append(("h_algebra", {"op": op, "k": 2}))
        j.append(("h_algebra", {"op": op, "k": 3 if op != "difference" else 2, "soft": True}))
    j += [("h_soft", {"kind": "sphere", "sigma": 1, "face": True}), ("h_soft", {"kind": "cylinder", "sigma": 2, "face": True}),
          ("h_soft", {"kind": "sphere", "sigma": 1, "outwards": False, "face": False}),
          ("h_soft", {"kind": "sphere", "sigma": 2, "face": False}), ("h_soft", {"kind": "sphere", "sigma": 3, "face": True}), ("h_soft", {"kind": "cylinder", "sigma": 3, "face": False})]
    j += [("h_ellipsoid", {"shape": [6, 8, 10]}), ("h_ellipsoid", {"shape": [8, 8, 8], "explicit_centre": False}), ("h_ellipsoid", {"shape": [10, 6, 12]})]
    j.append(("h_eshell", {"shape": [8, 10, 12]}))
    j.append(("h_algebra", {"op": "union", "k": 1}))
    j.append(("h_algebra", {"op": "subtraction", "k": 3}))
    if tier == "thorough":
        import random
        rnd = random.Random(seed)
        for _ in range(10):
            j.append(("h_ellipsoid", {"shape": [rnd.randrange(6, 49, 2) for _ in range(3)], "explicit_centre": bool(rnd.getrandbits(1))}))
        j.append(("h_eshell", {"shape": [12, 8, 16]}))
        j += [("h_generate", {"name": nm}) for nm in ("sphere_r9", "cylinder_r5_h11", "cylinder_r2_h3", "s_shell_r8_s4")]
        j += [("h_algebra", {"op": op, "k": 3}) for op in ("union", "intersection")]
    return j
