"""C04 — STOPGAP <-> cryoCAT conversion is a lossless renaming with parity half-sets."""
import numpy as np
import pandas as pd
from .common import *  # noqa

PROPERTY = "C04"
EXPLANATION = ("Real StopgapMotl.convert_to_sg_motl / sg_df_reset_index / convert_to_motl / __init__ and emmotl2stopgap / "
               "stopgap2emmotl run on real pandas frames whose 14 shared fields are distinct solver variables per particle; "
               "oracle: field-by-field equality under the documented renaming, row order, half-set parity, motl_idx.")
ASSUMPTIONS = ["N = 2 (quick) / 3 (thorough) particles, every shared field an independent real in [-1000,1000]; orientation columns are plain reals here (no trigonometry involved in a renaming)",
               "subtomogram numbers from the finite domain {1,2,5,8} (both parities, non-sequential), pairwise distinct not required",
               "frame index labels: default 0..N-1 and a list with gaps/unsorted labels (reachable after remove_feature etc.)"]
OUTSIDE = ["the via-.star-file path for ARBITRARY numeric cells (float<->text conversion has no SMT theory): the via-file jobs use concrete cell values that are exact in 6 decimals, with the subtomogram numbers / row order ranging over a finite domain by solver forks",
           "N > 3"]
BOUNDS = {"quick": {"particles": 2}, "thorough": {"particles": 3}}
EXPECTED_EXCEPTIONS = ()

PAIRS = {"subtomo_id": "subtomo_num", "tomo_id": "tomo_num", "object_id": "object", "x": "orig_x", "y": "orig_y", "z": "orig_z",
         "score": "score", "shift_x": "x_shift", "shift_y": "y_shift", "shift_z": "z_shift", "phi": "phi", "psi": "psi", "theta": "the",
         "class": "class"}
SG_COLS = ["motl_idx", "tomo_num", "object", "subtomo_num", "halfset", "orig_x", "orig_y", "orig_z", "score", "x_shift", "y_shift",
           "z_shift", "phi", "psi", "the", "class"]
SUB_DOM = [1, 2, 5, 8]
IDX = {"default": None, "gaps": [4, 1, 7]}


def _rows(env, n):
    rows = []
    for i in range(n):
        r = {}
        for em in PAIRS:
            if em == "subtomo_id":
                r[em] = env.choice("subtomo_%d" % i, SUB_DOM)
            else:
                r[em] = env.real("%s_%d" % (em, i), -1000, 1000)
        r["geom1"] = 11.0 + i
        r["geom4"] = 0.5
        rows.append(r)
    return rows


def _is_even(env, v):
    return env.or_(*[env.eq(v, d) for d in SUB_DOM if d % 2 == 0])


def _false(env):
    return env.not_(env.true())


def _check_export(env, sg, rows, reset_index, tag=""):
    env.check(tag + "columns", env.true() if list(sg.columns) == SG_COLS else _false(env))
    env.check(tag + "row_count", env.true() if sg.shape[0] == len(rows) else _false(env))
    if sg.shape[0] != len(rows):
        return
    for i, r in enumerate(rows):
        for em, st in PAIRS.items():
            env.check(tag + "field_%s_%d" % (st, i), env.eq(sg[st].iloc[i], r[em]))
        hs = sg["halfset"].iloc[i]
        even = _is_even(env, r["subtomo_id"])
        if isinstance(hs, str) and hs == "A":
            env.check(tag + "halfset_A_iff_even_%d" % i, even)
        elif isinstance(hs, str) and hs == "B":
            env.check(tag + "halfset_B_iff_odd_%d" % i, env.not_(even))
        else:
            env.check(tag + "halfset_is_A_or_B_%d" % i, _false(env))
        env.check(tag + "motl_idx_%d" % i, env.eq(sg["motl_idx"].iloc[i], float(i + 1) if reset_index else r["subtomo_id"]))


def h_export(env, n=2, reset_index=False, index="default"):
    cm = env.module("cryomotl")
    rows = _rows(env, n)
    df = mk_df(env, rows)
    if IDX[index] is not None:
        df.index = IDX[index][:n]
    sg = cm.StopgapMotl.convert_to_sg_motl(df, reset_index)
    _check_export(env, sg, rows, reset_index)


def _sg_frame(env, n):
    rows = []
    for i in range(n):
        r = {}
        for st in SG_COLS:
            if st == "halfset":
                continue
            if st == "subtomo_num":
                r[st] = env.choice("sgsub_%d" % i, SUB_DOM)
            else:
                r[st] = env.real("sg_%s_%d" % (st, i), -1000, 1000)
        r["halfset"] = "A" if i % 2 == 0 else "B"
        rows.append(r)
    if env.mode == "sym":
        df = pd.DataFrame({c: objcol([r[c] for r in rows]) for c in SG_COLS}, columns=SG_COLS)
    else:
        df = pd.DataFrame({c: ([r[c] for r in rows] if c == "halfset" else np.array([float(r[c]) for r in rows])) for c in SG_COLS}, columns=SG_COLS)
    return rows, df


def _check_import(env, mdf, rows, tag=""):
    env.check(tag + "motl_columns", env.true() if list(mdf.columns) == COLS else _false(env))
    env.check(tag + "row_count", env.true() if mdf.shape[0] == len(rows) else _false(env))
    if mdf.shape[0] != len(rows):
        return
    for i, r in enumerate(rows):
        for em, st in PAIRS.items():
            env.check(tag + "field_%s_%d" % (em, i), env.eq(mdf[em].iloc[i], r[st]))


def h_import(env, n=2, via="init", index="default"):
    cm = env.module("cryomotl")
    rows, sgdf = _sg_frame(env, n)
    if index == "permuted":
        sgdf.index = [(i + 1) % n for i in range(n)]         # e.g. a STOPGAP table sorted by score
    elif index == "gaps":
        sgdf.index = [4 + 3 * i for i in range(n)]           # e.g. one half-set / a subset of tomograms selected from a larger table
    if via == "init":
        m = cm.StopgapMotl(sgdf)
    elif via == "update":
        # conversion with the coordinate update requested: the RETURNED list has integer x,y,z, |shift| <= 0.5 and the same complete positions
        m = cm.stopgap2emmotl(sgdf, update_coordinates=True)
        for i, r in enumerate(rows):
            a = row(m.df, i)
            for c, oc, sc in (("x", "orig_x", "x_shift"), ("y", "orig_y", "y_shift"), ("z", "orig_z", "z_shift")):
                env.check("updated_position_kept_%s_%d" % (c, i), env.eq(a[c] + a["shift_" + c], r[oc] + r[sc]))
                env.check("updated_integer_%s_%d" % (c, i), env.is_int(a[c]))
                env.check("updated_half_bound_%s_%d" % (c, i), env.and_(env.le(a["shift_" + c], 0.5), env.ge(a["shift_" + c], -0.5)))
        return
    elif via == "copy_after_edit":
        # a list made from STOPGAP data, edited through the normal interface, then handed on as an object: the copy shows the edits
        src = cm.StopgapMotl(sgdf)
        src.df.loc[src.df.index[0], "class"] = 9.0
        nums = [_conc(env, r["subtomo_num"]) for r in rows]
        gone = nums[-1]
        if n > 1 and all(v != gone for v in nums[:-1]):
            src.remove_feature("subtomo_id", gone)
            rows = rows[:-1]
        rows = [dict(r) for r in rows]
        rows[0]["class"] = 9.0
        m = cm.stopgap2emmotl(src) if n % 2 == 0 else cm.StopgapMotl(src)
    else:
        m = cm.stopgap2emmotl(sgdf)
    _check_import(env, m.df, rows)


def h_roundtrip(env, n=2, reset_index=False):
    cm = env.module("cryomotl")
    rows = _rows(env, n)
    df = mk_df(env, rows)
    sgm = cm.emmotl2stopgap(df)           # EmMotl(df) -> StopgapMotl(motl.df)
    for i, r in enumerate(rows):
        a = row(sgm.df, i)
        env.check("emmotl2stopgap_keeps_%d" % i, env.and_(*[env.eq(a[c], r.get(c, 0.0)) for c in COLS]))
    sg = cm.StopgapMotl.convert_to_sg_motl(sgm.df, reset_index)
    _check_export(env, sg, rows, reset_index, "export_")
    back = cm.StopgapMotl(sg)
    for i, r in enumerate(rows):
        a = row(back.df, i)
        env.check("roundtrip_shared_fields_%d" % i, env.and_(*[env.eq(a[em], r[em]) for em in PAIRS]))


def h_via_file(env, n=3, reset_index=False, update_coord=False, reload_then_write=False):
    """via-.star-file path.  Cell *values* are concrete (multiples of 1/4, so the 6-decimal text form is exact);
    the subtomogram numbers - hence row order relative to ids and the parities - range over the finite domain."""
    cm = env.module("cryomotl")
    rows = []
    for i in range(n):
        r = {c: 0.0 for c in COLS}
        for k, em in enumerate(PAIRS):
            r[em] = 10.0 * (i + 1) + k + 0.25 * ((i + k) % 4)
        r["subtomo_id"] = _conc(env, env.choice("subtomo_%d" % i, [8, 5, 2, 1]))
        r["tomo_id"] = float(3 - i)
        r["object_id"] = float(i + 1)
        r["class"] = 1.0
        rows.append(r)
    df = pd.DataFrame({c: np.array([r[c] for r in rows], dtype=float) for c in COLS}, columns=COLS)
    p1 = env.real_path("a.star")
    sgm = cm.emmotl2stopgap(df.copy(), output_motl_path=p1, update_coordinates=False, reset_index=reset_index)
    back = cm.StopgapMotl(p1)
    exp = rows
    if reload_then_write:
        # load from a STOPGAP file, modify through the object, write again, reload: the file must hold the updated list
        p2 = env.real_path("b.star")
        back.write_out(p2, update_coord=update_coord, reset_index=reset_index)
        exp = [row(back.df, i) for i in range(back.df.shape[0])]
        back = cm.StopgapMotl(p2)
    env.check("row_count", env.true() if back.df.shape[0] == len(exp) else _false(env))
    if back.df.shape[0] != len(exp):
        return
    for i, r in enumerate(exp):
        a = row(back.df, i)
        for em in PAIRS:
            env.check("file_field_%s_%d" % (em, i), env.true() if abs(float(a[em]) - float(r[em])) <= 1e-6 else _false(env))
    sg = back.sg_df
    for i, r in enumerate(exp):
        hs = str(sg["halfset"].iloc[i]).strip()
        env.check("file_halfset_parity_%d" % i, env.true() if hs == ("A" if float(r["subtomo_id"]) % 2 == 0 else "B") else _false(env))
        env.check("file_motl_idx_%d" % i, env.true() if float(sg["motl_idx"].iloc[i]) == (float(i + 1) if reset_index else float(r["subtomo_id"])) else _false(env))


def _conc(env, v):
    if env.mode == "sym":
        from sx import core
        return float(core.concretize(v)) if core.is_sym(v) else float(v)
    return float(v)


def jobs(tier, seed):
    n = 2 if tier == "quick" else 3
    j = [("h_export", {"n": n, "reset_index": False}), ("h_export", {"n": n, "reset_index": True}),
         ("h_export", {"n": n, "reset_index": False, "index": "gaps"}),
         ("h_import", {"n": n, "via": "init"}), ("h_import", {"n": n, "via": "stopgap2emmotl"}),
         ("h_import", {"n": 1, "via": "update"}), ("h_import", {"n": 2, "via": "copy_after_edit"}), ("h_import", {"n": 3, "via": "copy_after_edit"}),
         ("h_import", {"n": n, "via": "init", "index": "permuted"}), ("h_import", {"n": n, "via": "stopgap2emmotl", "index": "gaps"}),
         ("h_roundtrip", {"n": 2, "reset_index": False}),
         ("h_via_file", {"n": 3, "reset_index": False}), ("h_via_file", {"n": 2, "reset_index": True}),
         ("h_via_file", {"n": 2, "reset_index": False, "update_coord": True, "reload_then_write": True})]
    if tier == "thorough":
        j += [("h_export", {"n": 3, "reset_index": True, "index": "gaps"}), ("h_roundtrip", {"n": 3, "reset_index": True})]
    return j
