"""C17 — tilt-series metadata: mdoc round-trip, loaders and wedge lists are consistent."""
import itertools, json, os, sys, time
import numpy as np
import pandas as pd
from .common import *  # noqa

PROPERTY = "C17"
EXPLANATION = ("(a) CrossHair/z3: Mdoc._format_value obeys the stated classification for every short string. (b) Real Mdoc.sort_by_tilt / remove_images / "
               "kept_images / write on an Mdoc whose tilt angles are solver reals (orderings by path forks): only the order or the Removed flag changes and "
               "the written text holds exactly the kept sections. (c) mdoc text -> Mdoc -> write -> Mdoc over a finite grammar of small mdoc texts chosen by "
               "solver forks. (d) Loaders on real files whose numbers come from finite domains: tilts ascending, defocus Angstrom->micrometre with mean "
               "(U+V)/2 for gctf STAR and ctffind4 text, mdoc dose = prior + exposure (and the DateTime-ordered accumulation without prior dose). "
               "(e) Wedge lists from array inputs with symbolic tilts / defocus / exposure / dimensions / z-shifts: one row per tilt per tomogram with that "
               "tomogram's values; EM wedge list min/max per tomogram.")
ASSUMPTIONS = ["mdoc ops: n <= 4 images, distinct symbolic tilt angles; removal index lists enumerated",
               "mdoc grammar: 1..3 ZValue sections, 2..3 keys, values from {int, float, negative float, text}, 0..2 header titles, chosen over finite domains",
               "loader files: 1..3 rows, values exact in the printed decimals; wedge lists: 1..2 tomograms x 2..3 tilts"]
OUTSIDE = ["parsing ARBITRARY numbers out of text files (pd.read_csv / float(str) have no SMT theory): file contents come from finite domains", "mdoc files with more than 3 sections / FrameSet sections", "warp xml inputs"]
BOUNDS = {"quick": {"images": 3}, "thorough": {"images": 4}}
EXPECTED_EXCEPTIONS = ()
OPTS = {"max_paths": 3000, "budget_s": 150, "qtimeout": 10.0}


def _false(env):
    return env.not_(env.true())


def _ok(env, b):
    return env.true() if b else _false(env)


def _conc(env, v):
    if env.mode == "sym":
        from sx import core
        return int(core.concretize(v)) if core.is_sym(v) else int(v)
    return int(v)


def _pick(env, name, k):
    return _conc(env, env.choice(name, list(range(k))))


# ---- (b) operations on an Mdoc object --------------------------------------------------------------------

def _mdoc(env, md, n):
    tilts = [env.real("tilt%d" % i, -70, 70) for i in range(n)]
    env.assume(env.and_(*[env.not_(env.eq(tilts[a], tilts[b])) for a in range(n) for b in range(a + 1, n)]))
    doses = [env.real("dose%d" % i, 0, 10) for i in range(n)]
    cols = {"ZValue": list(range(n)), "TiltAngle": tilts, "ExposureDose": doses, "SubFramePath": ["f%d.tif" % i for i in range(n)], "Removed": [False] * n}
    if env.mode == "sym":
        df = pd.DataFrame({k: objcol(v) if k in ("TiltAngle", "ExposureDose") else v for k, v in cols.items()})
    else:
        df = pd.DataFrame({k: (np.array([float(x) for x in v]) if k in ("TiltAngle", "ExposureDose") else v) for k, v in cols.items()})
    m = md.Mdoc(titles=["T = demo"], project_info={"PixelSpacing": 1.5, "Voltage": 300}, imgs=df)
    return m, tilts, doses


def _sections(path):
    out = []
    for line in open(path).read().split("\n"):
        if line.startswith("[ZValue"):
            out.append(int(line.split("=")[1].strip().strip("]")))
    return out


def h_mdoc_ops(env, n=3, remove=(1,), reset=False, sort_first=False, second=()):
    """remove_images / kept_images / sort_by_tilt / write in either order.  Positions given to remove_images count the KEPT
    images in the current table order (kept_only=True), so after a sort they refer to the sorted order."""
    md = env.module("mdoc")
    m, tilts, doses = _mdoc(env, md, n)

    def current_order():
        return [int(str(v)[1:-4]) for v in m.imgs["SubFramePath"]]      # which input image sits at each position

    def check_rows(tag):
        order = current_order()
        env.check(tag + "_rows_are_a_permutation", _ok(env, sorted(order) == list(range(n))))
        for p, i in enumerate(order):
            r = {c: m.imgs[c].iloc[p] for c in m.imgs.columns}
            env.check("%s_row_%d_carries_its_own_fields" % (tag, p), env.and_(env.eq(r["TiltAngle"], tilts[i]), env.eq(r["ExposureDose"], doses[i]), _ok(env, bool(r["Removed"]) == (i in removed))))
        return order

    removed = set()
    if sort_first:
        m.sort_by_tilt(reset_z_value=reset)
        order = check_rows("sorted")
        for p in range(n - 1):
            env.check("ascending_tilt_%d" % p, env.lt(tilts[order[p]], tilts[order[p + 1]]))
    for batch in (list(remove), list(second)):
        if not batch:
            continue
        kept_now = [i for i in current_order() if i not in removed]
        m.remove_images(batch)
        removed |= {kept_now[p] for p in batch}
        flags = {i: bool(v) for i, v in zip(current_order(), m.imgs["Removed"])}
        env.check("only_requested_images_flagged", _ok(env, {i for i, f in flags.items() if f} == removed))
        env.check("kept_images_are_the_others", _ok(env, [int(str(v)[1:-4]) for v in m.kept_images()["SubFramePath"]] == [i for i in current_order() if i not in removed]))
        check_rows("after_removal")
    if not sort_first:
        m.sort_by_tilt(reset_z_value=reset)
        order = check_rows("sorted")
        for p in range(n - 1):
            env.check("ascending_tilt_%d" % p, env.lt(tilts[order[p]], tilts[order[p + 1]]))
    order = current_order()
    zs = [int(v) for v in m.imgs["ZValue"]]
    env.check("z_values", _ok(env, zs == (list(range(n)) if reset else order)))
    p1, p2 = env.real_path("kept.mdoc"), env.real_path("all.mdoc")
    m.write(p1)
    m.write(p2, removed=True)
    exp_all = list(range(n)) if reset else order
    exp_kept = [z for z, i in zip(exp_all, order) if i not in removed]
    env.check("written_file_omits_exactly_the_removed_images", _ok(env, _sections(p1) == exp_kept))
    env.check("written_file_with_removed_keeps_all", _ok(env, _sections(p2) == exp_all))
    raised = False
    try:
        m.write(p1)
    except FileExistsError:
        raised = True
    env.check("refuses_to_overwrite_by_default", _ok(env, raised))


def h_mdoc_file_ops(env):
    """module-level wrappers on real files: mdoc.remove_images (1- and 0-based indices), sort_mdoc_by_tilt_angles, get_tilt_angles"""
    md = env.module("mdoc")
    n = 3 + _pick(env, "n", 2)
    k = _pick(env, "set", 3)
    one = _pick(env, "one_based", 2)
    which = [[0], [1, 2], [n - 1]][_pick(env, "which", 3)]
    tilts = TILTS[k][:n]
    lines = ["PixelSpacing = 1.35", "", "[T = demo]", ""]
    for i in range(n):
        lines += ["[ZValue = %d]" % i, "TiltAngle = %.2f" % tilts[i], "SubFramePath = f%d.tif" % i, ""]
    p = env.real_path("ts.mdoc")
    open(p, "w").write("\n".join(lines))
    env.check("get_tilt_angles_in_file_order", _ok(env, [round(float(v), 4) for v in md.get_tilt_angles(p)] == tilts))
    out = env.real_path("removed.mdoc")
    m = md.remove_images(p, [w + one for w in which], numbered_from_1=bool(one), output_file=out)
    env.check("wrapper_flags_requested_images", _ok(env, [i for i, f in enumerate(m.imgs["Removed"]) if bool(f)] == which))
    env.check("wrapper_file_omits_them", _ok(env, _sections(out) == [i for i in range(n) if i not in which]))
    m2 = md.Mdoc(out)
    env.check("reread_keeps_their_fields", _ok(env, [str(v) for v in m2.imgs["SubFramePath"]] == ["f%d.tif" % i for i in range(n) if i not in which]))
    out2 = env.real_path("sorted.mdoc")
    m3 = md.sort_mdoc_by_tilt_angles(p, reset_z_value=False, output_file=out2)
    order = sorted(range(n), key=lambda i: tilts[i])
    env.check("sorted_file_sections_in_tilt_order", _ok(env, _sections(out2) == order))
    env.check("sorted_file_tilts_ascending", _ok(env, [round(float(v), 4) for v in md.Mdoc(out2).imgs["TiltAngle"]] == sorted(tilts)))
    # sort, then remove by position in the sorted table, then write: the omitted sections are the ones at those positions
    m3.remove_images(which)
    out3 = env.real_path("sorted_removed.mdoc")
    m3.write(out3)
    env.check("remove_after_sort_refers_to_sorted_positions", _ok(env, _sections(out3) == [z for p_, z in enumerate(order) if p_ not in which]))


# ---- (c) text round trip over a finite grammar ------------------------------------------------------------

VALS = ["7", "0.25", "-12.5", "abc def", "15-Jun-21  10:11:12", "3 4 5"]


def h_mdoc_roundtrip(env):
    md = env.module("mdoc")
    n = 1 + _pick(env, "nsec", 3)
    ntitles = _pick(env, "ntitles", 3)
    nkeys = 2 + _pick(env, "nkeys", 2)
    voff = _pick(env, "voff", len(VALS))
    zstart = [0, 1, 5][_pick(env, "zstart", 3)]
    blank = _pick(env, "blank", 2)
    keys = ["TiltAngle", "Magnification", "DateTime", "Comment"][:nkeys]
    header = {"PixelSpacing": "1.35", "ImageFile": "ts_01.st", "Voltage": "300"}
    titles = ["T = SerialEM: demo", "T = Tilt axis angle = 85.3, binning = 1"][:ntitles]
    lines = ["%s = %s" % kv for kv in header.items()] + [""]
    for t in titles:
        lines += ["[%s]" % t, ""]
    table = []
    for s in range(n):
        lines.append("[ZValue = %d]" % (zstart + s))
        rowv = {}
        for k_i, k in enumerate(keys):
            v = ("%.1f" % (-30.0 + 20.5 * s)) if k == "TiltAngle" else VALS[(voff + s + k_i) % len(VALS)]
            lines.append("%s = %s" % (k, v))
            rowv[k] = v
        table.append(rowv)
        lines += [""] * (1 + blank)
    p = env.real_path("in.mdoc")
    open(p, "w").write("\n".join(lines))
    m = md.Mdoc(p)
    env.check("titles_read", _ok(env, list(m.titles) == titles))
    env.check("header_keys_read", _ok(env, list(m.project_info.keys()) == list(header.keys())))
    env.check("section_count", _ok(env, m.imgs.shape[0] == n))
    env.check("z_values_read", _ok(env, [int(v) for v in m.imgs["ZValue"]] == [zstart + s for s in range(n)]))
    p2 = env.real_path("out.mdoc")
    m.write(p2)
    m2 = md.Mdoc(p2)
    env.check("rewritten_titles_equal", _ok(env, list(m2.titles) == list(m.titles)))
    env.check("rewritten_header_equal", _ok(env, dict(m2.project_info) == dict(m.project_info)))
    same = m2.imgs.shape == m.imgs.shape and list(m2.imgs.columns) == list(m.imgs.columns)
    env.check("rewritten_table_shape_equal", _ok(env, same))
    if same:
        for c in m.imgs.columns:
            env.check("rewritten_column_%s_equal" % c, _ok(env, [str(v) for v in m.imgs[c]] == [str(v) for v in m2.imgs[c]]))
    for s in range(min(n, m.imgs.shape[0])):
        for k in keys:
            exp = table[s][k]
            got = m.imgs[k].iloc[s]
            try:
                num = float(exp)
                okv = abs(float(got) - num) < 1e-9
            except ValueError:
                okv = str(got) == exp.strip()
            env.check("value_sec%d_%s" % (s, k), _ok(env, okv))


# ---- (d) loaders -----------------------------------------------------------------------------------------

DEF = [[12345.5, 13000.25, 45.5, 0.0], [20000.0, 21000.5, -30.0, 90.0], [8000.75, 8100.0, 10.25, 0.0]]


def h_loaders(env, kind="gctf"):
    io = env.module("ioutils")
    n = 1 + _pick(env, "rows", 3)
    off = _pick(env, "off", 3)
    rows = [DEF[(off + i) % 3] for i in range(n)]
    if kind == "gctf":
        phase = _pick(env, "phase", 2)
        p = env.real_path("ts_gctf.star")
        cols = ["rlnMicrographName", "rlnDefocusU", "rlnDefocusV", "rlnDefocusAngle"] + (["rlnPhaseShift"] if phase else []) + ["rlnCtfFigureOfMerit"]
        with open(p, "w") as fh:
            fh.write("\ndata_\n\nloop_\n")
            for i, c in enumerate(cols):
                fh.write("_%s #%d\n" % (c, i + 1))
            for i, r in enumerate(rows):
                vals = ["img_%03d.mrc" % i, "%.6f" % r[0], "%.6f" % r[1], "%.6f" % r[2]] + (["%.6f" % r[3]] if phase else []) + ["0.1"]
                fh.write("  ".join(vals) + "\n")
            fh.write("\n")
        df = io.defocus_load(p, "gctf")
        exp_phase = [r[3] if phase else 0.0 for r in rows]
    else:
        p = env.real_path("ts_ctffind.txt")
        with open(p, "w") as fh:
            fh.write("# Output from CTFFind version 4.1\n# Columns: #1 - micrograph number; #2 - defocus 1 [Angstroms]; ...\n")
            for i, r in enumerate(rows):
                fh.write("%.6f %.6f %.6f %.6f %.6f 0.05 4.2\n" % (i + 1.0, r[0], r[1], r[2], r[3]))
        df = io.defocus_load(p, "ctffind4")
        exp_phase = [r[3] for r in rows]
    env.check("row_count", _ok(env, df.shape[0] == n))
    env.check("columns", _ok(env, list(df.columns) == ["defocus1", "defocus2", "astigmatism", "phase_shift", "defocus_mean"]))
    if df.shape[0] == n:
        tol = 1e-4 if kind != "gctf" else 1e-9       # ctffind4 files are read as float32
        for i, r in enumerate(rows):
            g = {c: float(df[c].iloc[i]) for c in df.columns}
            env.check("defocus_micrometre_%d" % i, _ok(env, abs(g["defocus1"] - r[0] * 1e-4) <= tol * (1 + abs(r[0] * 1e-4)) and abs(g["defocus2"] - r[1] * 1e-4) <= tol * (1 + abs(r[1] * 1e-4))))
            env.check("mean_is_half_sum_%d" % i, _ok(env, abs(g["defocus_mean"] - (r[0] + r[1]) * 1e-4 / 2) <= tol * 3))
            env.check("astigmatism_and_phase_%d" % i, _ok(env, abs(g["astigmatism"] - r[2]) <= 1e-4 and abs(g["phase_shift"] - exp_phase[i]) <= 1e-4))


TILTS = [[-60.0, -30.5, 0.0, 29.75], [10.0, -20.0, 40.5, 0.5], [3.0, 0.0, -3.0, 0.0]]          # the last series holds the angle 0 twice (a re-acquired image)


def h_tilt_dose(env, src="tlt"):
    io = env.module("ioutils")
    n = 2 + _pick(env, "n", 3)
    k = _pick(env, "set", 3)
    tilts = TILTS[k][:n]
    if src == "tlt":
        p = env.real_path("ts.tlt")
        open(p, "w").write("\n".join("%.2f" % t for t in tilts) + "\n")
        got = io.tlt_load(p)
        env.check("tilts_ascending", _ok(env, [round(float(v), 4) for v in got] == sorted(tilts)))
        got2 = io.tlt_load(p, sort_angles=False)
        env.check("tilts_unsorted_as_in_file", _ok(env, [round(float(v), 4) for v in got2] == tilts))
        p2 = env.real_path("dose.txt")
        doses = [1.5 * (i + 1) for i in range(n)]
        open(p2, "w").write("\n".join("%.2f" % d for d in doses) + "\n")
        env.check("dose_file_values", _ok(env, [round(float(v), 4) for v in io.total_dose_load(p2)] == doses))
        return
    prior = _pick(env, "prior", 2)
    vary = _pick(env, "vary", 2)
    acq = [[0, 1, 2, 3], [2, 0, 3, 1], [3, 2, 1, 0]][_pick(env, "acq", 3)][:n]     # acquisition rank of the image stored at each file position
    acq = [sorted(acq).index(a) for a in acq]
    exp_d = [2.0 + (0.5 * i if vary else 0.0) for i in range(n)]
    lines = ["PixelSpacing = 1.35", "", "[T = demo]", ""]
    cum = {}
    run = 0.0
    for r_ in range(n):             # prior dose by acquisition order
        i = acq.index(r_)
        cum[i] = run
        run += exp_d[i]
    for i in range(n):
        lines.append("[ZValue = %d]" % i)
        lines.append("TiltAngle = %.2f" % tilts[i])
        lines.append("ExposureDose = %.2f" % exp_d[i])
        if prior:
            lines.append("PriorRecordDose = %.2f" % cum[i])
        lines.append("DateTime = 15-Jun-21  10:%02d:00" % (10 + acq[i]))
        lines.append("")
    p = env.real_path("ts.mdoc")
    open(p, "w").write("\n".join(lines))
    got = [round(float(v), 4) for v in io.total_dose_load(p)]
    order = sorted(range(n), key=lambda i: tilts[i])                 # default: sorted by tilt
    if prior:
        exp = [round(cum[i] + exp_d[i], 4) for i in order]
        env.check("mdoc_dose_is_prior_plus_exposure_in_tilt_order", _ok(env, got == exp))
    elif not vary:
        exp = [round(exp_d[i] * (acq[i] + 1), 4) for i in order]
        env.check("mdoc_dose_accumulates_in_acquisition_order", _ok(env, got == exp))
    got_t = [round(float(v), 4) for v in io.tlt_load(p)]
    env.check("mdoc_tilts_ascending", _ok(env, got_t == sorted(tilts)))


# ---- (e) wedge lists -------------------------------------------------------------------------------------

def h_wedge_single(env, n=3, with_ctf=True, with_dose=True):
    wu = env.module("wedgeutils")
    tilts = [env.real("tilt%d" % i, -70, 70) for i in range(n)]
    ctf = [[env.real("ctf%d_%d" % (i, c), -100, 100) for c in range(5)] for i in range(n)]
    dose = [env.real("dose%d" % i, 0, 300) for i in range(n)]
    dims = [env.real("dim%s" % a, 1, 5000) for a in "xyz"]
    zs = env.real("zshift", -100, 100)
    px = env.real("pixel", 0.1, 20)
    if env.mode == "sym":
        T, D = objcol(tilts), objcol(dose)
        C = np.empty((n, 5), dtype=object)
        for i in range(n):
            for c in range(5):
                C[i, c] = ctf[i][c]
        dm = list(dims)
    else:
        T, D, C, dm = np.array(tilts), np.array(dose), np.array(ctf), [float(v) for v in dims]
    df = wu.create_wedge_list_sg(17, dm, px, T, z_shift=zs, ctf_file=C if with_ctf else None, dose_file=D if with_dose else None)
    env.check("one_row_per_tilt", _ok(env, df.shape[0] == n))
    exp_cols = ["tomo_num", "pixelsize", "tomo_x", "tomo_y", "tomo_z", "z_shift", "tilt_angle"] + (["defocus"] if with_ctf else []) + (["exposure"] if with_dose else []) + ["voltage", "amp_contrast", "cs"]
    env.check("columns", _ok(env, list(df.columns) == exp_cols))
    if df.shape[0] != n or list(df.columns) != exp_cols:
        return
    for i in range(n):
        r = {c: df[c].iloc[i] for c in df.columns}
        conds = [env.eq(r["tomo_num"], 17.0), env.eq(r["pixelsize"], px), env.eq(r["tomo_x"], dims[0]), env.eq(r["tomo_y"], dims[1]), env.eq(r["tomo_z"], dims[2]),
                 env.eq(r["z_shift"], zs), env.eq(r["tilt_angle"], tilts[i]), env.eq(r["voltage"], 300.0), env.eq(r["amp_contrast"], 0.07), env.eq(r["cs"], 2.7)]
        if with_ctf:
            conds.append(env.eq(r["defocus"], ctf[i][4]))
        if with_dose:
            conds.append(env.eq(r["exposure"], dose[i]))
        env.check("row_%d_pairs_ith_tilt_defocus_exposure_with_tomogram_constants" % i, env.and_(*conds))


def h_wedge_batch(env, order="aligned", tomos=(3, 11)):
    wu = env.module("wedgeutils")
    tomos = list(tomos)
    tl = {3: [-40.0, 0.5, 38.0], 11: [-20.25, 10.0]}
    d = env.real_path("x")
    base = os.path.dirname(d)
    for t, vals in tl.items():
        open(os.path.join(base, "ts_%03d.tlt" % t), "w").write("\n".join("%.2f" % v for v in vals) + "\n")
    dims = {t: [env.real("dim%d%s" % (t, a), 1, 5000) for a in "xyz"] for t in tomos}
    zsh = {t: env.real("zs%d" % t, -100, 100) for t in tomos}
    px = env.real("pixel", 0.1, 20)
    keys = sorted(tomos) if order == "aligned" else sorted(tomos, reverse=True)
    extra = order == "superset"
    dim_rows = [[float(t)] + dims[t] for t in keys] + ([[99.0, 1.0, 2.0, 3.0]] if extra else [])
    zs_rows = [[float(t), zsh[t]] for t in keys] + ([[99.0, 5.0]] if extra else [])
    if env.mode == "sym":
        def arr(rows):
            a = np.empty((len(rows), len(rows[0])), dtype=object)
            for i, r in enumerate(rows):
                for j, v in enumerate(r):
                    a[i, j] = v
            return a
        DM, ZS = arr(dim_rows), arr(zs_rows)
    else:
        DM, ZS = np.array(dim_rows, dtype=float), np.array(zs_rows, dtype=float)
    df = wu.create_wedge_list_sg_batch(np.array(tomos), px, os.path.join(base, "ts_$xxx.tlt"), tomo_dim=DM, z_shift=ZS)
    total = sum(len(v) for v in tl.values())
    env.check("one_row_per_tilt_per_tomogram", _ok(env, df.shape[0] == total))
    if df.shape[0] != total:
        return
    k = 0
    for t in tomos:
        for v in sorted(tl[t]):
            r = {c: df[c].iloc[k] for c in df.columns}
            env.check("row_%d_tomogram_%d" % (k, t), env.and_(env.eq(r["tomo_num"], float(t)), env.eq(r["tilt_angle"], v), env.eq(r["tomo_x"], dims[t][0]), env.eq(r["tomo_y"], dims[t][1]),
                                                                env.eq(r["tomo_z"], dims[t][2]), env.eq(r["z_shift"], zsh[t]), env.eq(r["pixelsize"], px)))
            k += 1
    em = wu.create_wedge_list_em_batch(np.array(tomos), os.path.join(base, "ts_$xxx.tlt"))
    for i, t in enumerate(tomos):
        env.check("em_wedge_min_max_%d" % t, _ok(env, abs(float(em["min_angle"].iloc[i]) - min(tl[t])) < 1e-4 and abs(float(em["max_angle"].iloc[i]) - max(tl[t])) < 1e-4 and int(em["tomo_num"].iloc[i]) == t))


def h_wedge_sg_to_em(env, via="frame"):
    """STOPGAP wedge list -> EM wedge list: per tomogram the minimum and maximum tilt, whatever the row order of the tilts
    (lists built from arrays keep acquisition order).  Tilts are solver reals when the list is handed over as a table."""
    wu = env.module("wedgeutils")
    tl = {3: [env.real("t3_%d" % i, -70, 70) for i in range(3)], 11: [env.real("t11_%d" % i, -70, 70) for i in range(2)]}
    if via == "file":
        k = _pick(env, "set", 3)
        tl = {3: [[0.0, -12.0, 15.0], [48.0, 3.0, -51.0], [-9.0, 0.0, 9.0]][k], 11: [[20.5, -20.25], [-5.0, 10.0], [7.0, 6.0]][k]}
    rows = []
    for t in (11, 3):                                   # tomograms not in ascending order either
        for v in tl[t]:
            rows.append({"tomo_num": t, "pixelsize": 1.5, "tomo_x": 100, "tomo_y": 120, "tomo_z": 50, "z_shift": 0.0, "tilt_angle": v, "voltage": 300.0, "amp_contrast": 0.07, "cs": 2.7})
    cols = list(rows[0].keys())
    if env.mode == "sym" and via != "file":
        df = pd.DataFrame({c: (objcol([r[c] for r in rows]) if c == "tilt_angle" else [r[c] for r in rows]) for c in cols})
    else:
        df = pd.DataFrame({c: [float(r[c]) if c != "tomo_num" else int(r[c]) for r in rows] for c in cols})
    out_em = env.real_path("wedge.em")
    if via == "file":
        from cryocat import starfileio as _sf       # the file is produced with the plain writer; the function under test reads it
        p = env.real_path("wedge_sg.star")
        _sf.Starfile.write([df], p, specifiers=["data_stopgap_wedgelist"])
        em = wu.wedge_list_sg_to_em(p, out_em, write_out=True)
    else:
        em = wu.wedge_list_sg_to_em(df, out_em, write_out=False)
    env.check("one_row_per_tomogram", _ok(env, sorted(int(v) for v in em["tomo_id"]) == [3, 11]))
    for i in range(em.shape[0]):
        t = int(em["tomo_id"].iloc[i])
        if t not in tl:
            continue
        lo, hi = em["min_tilt_angle"].iloc[i], em["max_tilt_angle"].iloc[i]
        env.check("min_is_a_lower_bound_%d" % t, env.and_(*[env.le(lo, v) for v in tl[t]]))
        env.check("max_is_an_upper_bound_%d" % t, env.and_(*[env.ge(hi, v) for v in tl[t]]))
        env.check("min_max_are_attained_%d" % t, env.and_(env.or_(*[env.eq(lo, v) for v in tl[t]]), env.or_(*[env.eq(hi, v) for v in tl[t]])))


def jobs(tier, seed):
    j = [("h_mdoc_ops", {"n": 3, "remove": [1]}), ("h_mdoc_ops", {"n": 3, "remove": [0, 2], "reset": True}), ("h_mdoc_ops", {"n": 3, "remove": [0], "sort_first": True, "second": [1]}),
         ("h_mdoc_ops", {"n": 3, "remove": [2], "sort_first": True, "reset": True}), ("h_mdoc_file_ops", {}), ("h_mdoc_roundtrip", {}),
         ("h_loaders", {"kind": "gctf"}), ("h_loaders", {"kind": "ctffind4"}), ("h_tilt_dose", {"src": "tlt"}), ("h_tilt_dose", {"src": "mdoc"}),
         ("h_wedge_single", {"n": 3}), ("h_wedge_single", {"n": 2, "with_ctf": False}), ("h_wedge_batch", {"order": "aligned"}), ("h_wedge_batch", {"order": "reversed"}),
         ("h_wedge_batch", {"order": "superset"}), ("h_wedge_batch", {"order": "aligned", "tomos": [11, 3]}), ("h_wedge_batch", {"order": "superset", "tomos": [11, 3]}),
         ("h_wedge_sg_to_em", {"via": "frame"}), ("h_wedge_sg_to_em", {"via": "file"})]
    if tier == "thorough":
        j += [("h_mdoc_ops", {"n": 4, "remove": [3]}), ("h_mdoc_ops", {"n": 4, "remove": [1, 2], "reset": True}), ("h_mdoc_ops", {"n": 4, "remove": [0, 3], "sort_first": True, "second": [0]}), ("h_wedge_single", {"n": 3, "with_dose": False})]
    return j


def run(tier, seed, args):
    from sx import explore, report, cli, crosshair_run
    t0 = time.time()
    n = 3 if tier == "quick" else 4
    src = open(os.path.join(cli.ROOT, "tier_s", "c17_fmt.py")).read().replace("len(value) <= 3", "len(value) <= %d" % n)
    gpath = os.path.join(cli.ROOT, "tier_s", "_c17_fmt_gen.py")
    open(gpath, "w").write(src)
    pct = 120 if tier == "quick" else 900
    procs = crosshair_run.launch(["tier_s._c17_fmt_gen.fmt_rule", "tier_s._c17_fmt_gen.fmt_rule_reach"], pct)
    mod = sys.modules[__name__]
    opts = dict(OPTS)
    max_paths = opts.pop("max_paths")
    budget = opts.pop("budget_s") if tier == "quick" else 900
    opts.setdefault("otimeout", 20.0)
    res = explore.explore("harness.C17", jobs(tier, seed), opts, workers=14, max_paths=max_paths if tier == "quick" else 40000, budget_s=budget)
    ch = crosshair_run.collect(procs, pct + 60)
    try:
        os.unlink(gpath)
    except OSError:
        pass
    rows, extra_viol = [], []
    n_conf = n_inc = 0
    for target, text, secs in ch:
        verdict, detail = crosshair_run.classify(target, text)
        name = target.rsplit(".", 1)[1]
        row_ = {"condition": name, "verdict": verdict, "detail": detail, "seconds": round(secs, 1)}
        if name.endswith("_reach"):
            row_["role"] = "vacuity witness"
            row_["ok"] = verdict == "refuted"
            if verdict != "refuted":
                n_inc += 1
        elif verdict == "confirmed":
            n_conf += 1
        elif verdict == "refuted":
            ok, inp = crosshair_run.replay_call(target.replace("_c17_fmt_gen", "c17_fmt"), detail)
            row_["replay"] = {"holds_on_plain_code": ok, "input": inp}
            if ok is False:
                extra_viol.append({"fn": name, "params": {}, "obligation": "format_value_rule", "model": {"input": json.dumps(inp, default=str)}, "why": "CrossHair counterexample reproduced: " + (detail or "")})
            else:
                n_inc += 1
        else:
            n_inc += 1
        rows.append(row_)
    extra = {"crosshair": rows, "crosshair_confirmed": n_conf, "crosshair_inconclusive": n_inc,
             "checker_cmd": "python -m crosshair check --report_all --per_condition_timeout %d <condition>" % pct}
    return report.finish(PROPERTY, mod, tier, seed, res, cli.load_known(), t0, verbose=getattr(args, "v", False), extra_cov=extra, extra_violations=extra_viol,
                         extra_obligations=(1, n_conf, n_inc))
