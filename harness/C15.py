"""C15 — tilt-stack operations are lossless selections/permutations of tilt images."""
import itertools
import numpy as np
from .common import *  # noqa

PROPERTY = "C15"
EXPLANATION = ("Real tiltstack.TiltStack/crop/sort_tilts_by_angle/remove_tilts/bin/split_stack_even_odd/flip_along_axes (+ioutils.indices_load/tlt_load, "
               "cryomap.read/write) on lazy functional arrays: image width/height symbolic (4..40, independent), pixel content an uninterpreted function, one "
               "symbolic pixel; tilt angles symbolic reals (orderings by path forks); number of tilts, axis orders, dtype, file/array input enumerated.")
ASSUMPTIONS = ["width, height independent integers in [4,40]; n tilts enumerated (quick 2..5, thorough 2..8); tilt angles distinct reals in [-70,70] (n<=4 for sorting)",
               "indices to remove: enumerated subsets, 1- and 0-based; crop sizes symbolic; binning factor in {2,3,4}"]
OUTSIDE = ["n > 8 tilts; equal tilt angles (ties excluded by the property)"]
WITNESS_ONLY = ["merge(): numeric order of the part files (h_merge) - real glob and real files, evaluated by the concrete run only"]
BOUNDS = {"quick": {"tilts": "2..5", "image": "4..40 symbolic"}, "thorough": {"tilts": "2..8", "image": "4..40 symbolic"}}
EXPECTED_EXCEPTIONS = ()
OPTS = {"qtimeout": 20.0}


def _false(env):
    return env.not_(env.true())


def at(arr, idx):
    if hasattr(arr, "at"):
        return arr.at(idx)
    return arr[tuple(int(i) for i in idx)]


def view(arr, order, x, y, t):
    """element of the stack at image pixel (x, y) of tilt t for an array in the given axis order"""
    return at(arr, (x, y, t)) if order == "xyz" else at(arr, (t, y, x))


def dims(arr, order):
    s = arr.shape
    return (s[0], s[1], s[2]) if order == "xyz" else (s[2], s[1], s[0])


def _stack(env, n, dtype, order, via_file=False, cm=None):
    W = env.integer("W", 4, 40)
    H = env.integer("H", 4, 40)
    shape = (W, H, n) if order == "xyz" else (n, H, W)
    if env.mode == "sym":
        from sx import larray
        x = larray.uf_array("img", shape, tag=dtype)
    else:
        rng = np.random.default_rng(11)
        shp = tuple(int(v) for v in shape)
        x = (rng.standard_normal(shp) * 50).astype(dtype) if dtype.startswith("float") else rng.integers(-90, 90, size=shp).astype(dtype)
    src = x
    if via_file:
        p = env.path("stack_in.mrc")
        # an MRC tilt stack holds n images of (H, W): write in n,y,x order
        zyx = x if order == "zyx" else x.transpose(2, 1, 0)
        cm.write(zyx, p, transpose=False)
        src = p
    return W, H, x, src


def _pixel(env, Wn, Hn, name=""):
    px = env.integer("px" + name, 0, 39)
    py = env.integer("py" + name, 0, 39)
    env.assume(env.and_(env.lt(px, Wn), env.lt(py, Hn)))
    return px, py


def _cast(env, v, dtype):
    return v


def _check_out_file(env, path, n_out, Wn, Hn, expect, dtype, px, py):
    fmt, ddt, dms, get = env.file_view(path)
    env.check("file_dtype_is_input_dtype", env.true() if ddt == dtype else _false(env))
    env.check("file_dims_nx_ny_nz", env.and_(env.eq(dms[0], Wn), env.eq(dms[1], Hn), env.eq(dms[2], n_out)))
    for t in range(n_out):
        env.check("file_holds_result_t%d" % t, env.eq(get(px, py, t), expect(px, py, t)))


def h_op(env, op="flip", n=3, dtype="float32", input_order="xyz", output_order="xyz", via_file=False, out_file=False, arg=None):
    ts = env.module("tiltstack")
    cm = env.module("cryomap")
    W, H, x, src = _stack(env, n, dtype, input_order, via_file, cm)
    io = "zyx" if via_file else input_order       # a file is always read as n,y,x
    kw = {"input_order": io, "output_order": output_order}
    if via_file:
        kw["input_order"] = input_order            # ignored for files by the code; passing it must not matter
    outp = env.path("out.mrc") if out_file else None
    X = lambda a, b, t: view(x, input_order, a, b, t)
    Wn, Hn, n_out = W, H, n
    if op == "flip":
        axes = arg or ["x"]
        res = ts.flip_along_axes(src, list(axes), output_file=outp, **kw)
        res2 = ts.flip_along_axes(res, list(axes), input_order=output_order, output_order=output_order)

        def expect(a, b, t):
            # documented naming of the code: 'x' flips image rows (y index), 'y' flips columns (x index), 'z' the tilt order
            aa, bb, tt = a, b, t
            for ax in axes:
                if ax == "x":
                    bb = H - 1 - bb
                elif ax == "y":
                    aa = W - 1 - aa
                else:
                    tt = n - 1 - tt
            return X(aa, bb, tt)
    elif op == "sort":
        if arg in ("file", "list"):
            # tilt angles given as a .tlt file in acquisition order (or a plain list): concrete values, order chosen by a solver fork
            base = [[0.0, 3.0, -3.0, 6.0, -6.0, 9.0, -9.0], [10.5, -20.0, 40.25, 0.5, -40.0, 20.0, 30.0], [-9.0, -6.0, -3.0, 0.0, 3.0, 6.0, 9.0]]
            pick = env.choice("tiltset", [0, 1, 2])
            if env.mode == "sym":
                from sx import core
                pick = core.concretize(pick) if core.is_sym(pick) else pick
            angles = base[int(pick)][:n]
            if arg == "file":
                tl = env.real_path("stack.tlt")
                open(tl, "w").write("\n".join("%.2f" % a for a in angles) + "\n")
            else:
                tl = list(angles)
        else:
            angles = [env.real("tilt%d" % k, -70, 70) for k in range(n)]
            env.assume(env.and_(*[env.not_(env.eq(angles[a], angles[b])) for a in range(n) for b in range(a + 1, n)]))
            tl = objcol(angles) if env.mode == "sym" else np.array(angles)
        res = ts.sort_tilts_by_angle(src, tl, output_file=outp, **kw)
        res2 = None

        def expect(a, b, t):
            # the image at output position t is the input image with exactly t smaller tilt angles
            v = None
            for k in range(n):
                rank_is_t = env.eq(sum(env.ite(env.lt(angles[q], angles[k]), 1, 0) for q in range(n) if q != k), t)
                v = X(a, b, k) if v is None else env.ite(rank_is_t, X(a, b, k), v)
            return v
    elif op == "remove":
        idx, from1 = arg[0], arg[1]
        if len(arg) > 2 and arg[2] in ("txt", "csv"):
            # indices taken from a file: one index per line, or a table with a boolean ToBeRemoved column (always 0-based)
            if arg[2] == "txt":
                ipath = env.real_path("remove.txt")
                open(ipath, "w").write("\n".join(str(int(v)) for v in idx) + "\n")
            else:
                ipath = env.real_path("remove.csv")
                zero_based = [i - 1 if from1 else i for i in idx]
                open(ipath, "w").write("Index,ToBeRemoved\n" + "\n".join("%d,%s" % (t, "True" if t in zero_based else "False") for t in range(n)) + "\n")
            res = ts.remove_tilts(src, ipath, numbered_from_1=from1, output_file=outp, **kw)
        elif len(arg) > 2 and arg[2] == "array":
            # indices handed over as the caller's ndarray, which is then used for a SECOND call: the caller's array must be
            # left alone and the second result (checked below) must be the same selection
            ia = np.array(list(idx))
            ts.remove_tilts(src, ia, numbered_from_1=from1, **kw)
            env.check("caller_index_array_unchanged", env.true() if [int(v) for v in ia] == [int(v) for v in idx] else _false(env))
            res = ts.remove_tilts(src, ia, numbered_from_1=from1, output_file=outp, **kw)
        else:
            res = ts.remove_tilts(src, list(idx), numbered_from_1=from1, output_file=outp, **kw)
        res2 = None
        gone = set(i - 1 if from1 else i for i in idx)
        keep = [t for t in range(n) if t not in gone]
        n_out = len(keep)

        def expect(a, b, t):
            return X(a, b, keep[t])
    elif op == "split":
        ev, od = ts.split_stack_even_odd(src, output_file_prefix=(env.path("pref") if out_file else None), **kw)
        res, res2 = ev, od
        n_out = (n + 1) // 2

        def expect(a, b, t):
            return X(a, b, 2 * t)
    elif op == "crop":
        nw = env.integer("newW", 1, 40)
        nh = env.integer("newH", 1, 40)
        env.assume(env.and_(env.le(nw, W), env.le(nh, H)))
        res = ts.crop(src, new_width=nw, new_height=nh, output_file=outp, **kw)
        res2 = None
        Wn, Hn = nw, nh
        sw, sh = W // 2 - nw // 2, H // 2 - nh // 2

        def expect(a, b, t):
            return X(a + sw, b + sh, t)
    elif op == "bin":
        bf = int(arg)
        res = ts.bin(src, bf, output_file=outp, **kw)
        res2 = None
        Wn, Hn = (W + bf - 1) // bf, (H + bf - 1) // bf

        def expect(a, b, t):
            tot = 0
            for dx in range(bf):
                for dy in range(bf):
                    inb = env.and_(env.lt(a * bf + dx, W), env.lt(b * bf + dy, H))
                    tot = tot + env.ite(inb, _guard(env, inb, lambda: X(a * bf + dx, b * bf + dy, t)), 0.0)
            m = tot / (bf * bf)
            return m
    else:
        raise ValueError(op)
    px, py = _pixel(env, Wn, Hn)
    d = dims(res, output_order)
    env.check("result_dims", env.and_(env.eq(d[0], Wn), env.eq(d[1], Hn), env.eq(d[2], n_out)))
    cast = (lambda v: v)
    if op == "bin" and dtype != "float64":
        cast = lambda v: _castv(env, v, dtype)
    for t in range(n_out):
        if op == "flip" and any(ax in ("x", "y") for ax in axes):
            continue    # the property only states that flipping twice is the identity (which in-plane axis 'x'/'y' names is not part of it)
        env.check("%s_result_t%d" % (op, t), env.eq(view(res, output_order, px, py, t), cast(expect(px, py, t))))
    if op == "flip":
        for t in range(n):
            env.check("flip_twice_identity_t%d" % t, env.eq(view(res2, output_order, px, py, t), X(px, py, t)))
    if op == "split":
        n_odd = n // 2
        d2 = dims(res2, output_order)
        env.check("odd_dims", env.and_(env.eq(d2[0], W), env.eq(d2[1], H), env.eq(d2[2], n_odd)))
        for t in range(n_odd):
            env.check("odd_result_t%d" % t, env.eq(view(res2, output_order, px, py, t), X(px, py, 2 * t + 1)))
        if out_file:
            _check_out_file(env, env.path("pref") + "_even.mrc", n_out, W, H, lambda a, b, t: X(a, b, 2 * t), dtype, px, py)
            _check_out_file(env, env.path("pref") + "_odd.mrc", n_odd, W, H, lambda a, b, t: X(a, b, 2 * t + 1), dtype, px, py)
    elif out_file:
        _check_out_file(env, outp, n_out, Wn, Hn, (lambda a, b, t: cast(expect(a, b, t))), dtype, px, py)
    env.check("result_dtype", env.true() if str(res.dtype) == dtype else _false(env))


def h_merge(env, nfiles=12, padded=False):
    """merge(): part files are concatenated in the NUMERIC order of their indices (tilt_2 before tilt_10), in the returned array
    (both orders) and in the written file.  The files are found with a real glob, so this clause is evaluated by the concrete
    run only (real files, real mrcfile); the symbolic run contributes the choice of the case."""
    k = env.choice("case", [0, 1])
    if env.mode == "sym":
        env.check("case_declared", env.true())
        return
    import os
    ts = env.module("tiltstack")
    cm = env.module("cryomap")
    out_order = ["xyz", "zyx"][int(k)]
    base = os.path.dirname(env.real_path("x"))
    W, H = 6, 5
    parts = []
    for i in range(1, nfiles + 1):
        nt = 1 + (i % 3)
        a = (np.arange(nt * H * W, dtype=np.float32).reshape(nt, H, W) % 7) + 100.0 * i
        parts.append(a)
        cm.write(a, os.path.join(base, ("tilt_%03d.mrc" if padded else "tilt_%d.mrc") % i), transpose=False)
    outp = os.path.join(base, "merged.mrc")
    res = ts.merge(os.path.join(base, "tilt_*.mrc"), output_file=outp, output_order=out_order)
    exp = np.concatenate(parts, axis=0)                          # n, y, x
    got = np.asarray(res)
    got_zyx = got if out_order == "zyx" else got.transpose(2, 1, 0)
    env.check("merged_in_numeric_order", bool(got_zyx.shape == exp.shape and np.array_equal(got_zyx, exp)))
    disk = cm.read(outp, transpose=False)
    env.check("merged_file_in_numeric_order", bool(disk.shape == exp.shape and np.array_equal(disk, exp)))


def _guard(env, cond, thunk):
    """evaluate an out-of-range read only symbolically (conc: only when in range)"""
    if env.mode == "conc":
        return thunk() if cond else 0.0
    return thunk()


def _castv(env, v, dtype):
    if env.mode == "sym":
        from sx import core
        name = {"float32": "f32", "int16": "i16", "int8": "i8"}[dtype]
        return core.SNum(core.ufun(name, 1)(core.zreal(v)))
    return np.dtype(dtype).type(v)


def jobs(tier, seed):
    j = []
    orders = [("xyz", "xyz"), ("zyx", "zyx"), ("xyz", "zyx"), ("zyx", "xyz")]
    k = 0
    for op, arg, n in [("flip", ["x"], 3), ("flip", ["y"], 2), ("flip", ["z", "x"], 4), ("sort", None, 3), ("remove", ([2], True), 3), ("remove", ([0, 3], False), 5),
                       ("remove", ([1, 4], True), 4), ("split", None, 5), ("split", None, 4), ("crop", None, 2), ("bin", 2, 2), ("bin", 3, 2)]:
        for io, oo in (orders if tier == "thorough" else [orders[k % 4], orders[(k + 1) % 4]]):
            dtype = ["float32", "int16"][k % 2]
            via_file = (k % 3 == 0) and op != "sort"
            j.append(("h_op", {"op": op, "n": n, "dtype": dtype, "input_order": io, "output_order": oo, "via_file": via_file, "out_file": k % 2 == 0, "arg": arg}))
            k += 1
    # dtype x output-file combinations that the alternation above does not produce
    j += [("h_op", {"op": "bin", "n": 2, "arg": 2, "dtype": "int16", "out_file": True}),
          ("h_op", {"op": "bin", "n": 2, "arg": 3, "dtype": "float32", "out_file": True, "via_file": True, "input_order": "zyx", "output_order": "zyx"}),
          ("h_op", {"op": "crop", "n": 2, "dtype": "int16", "out_file": True, "via_file": True}),
          ("h_op", {"op": "sort", "n": 3, "dtype": "int16", "out_file": True, "input_order": "zyx"}),
          ("h_op", {"op": "remove", "n": 5, "arg": ([2, 5], True, "array"), "dtype": "int16", "out_file": True}),
          ("h_op", {"op": "remove", "n": 4, "arg": ([0, 2], False, "array"), "input_order": "zyx", "output_order": "zyx"}),
          ("h_op", {"op": "sort", "n": 5, "arg": "file", "out_file": True}), ("h_op", {"op": "sort", "n": 4, "arg": "list", "dtype": "int16", "input_order": "zyx", "output_order": "zyx"}),
          ("h_op", {"op": "sort", "n": 3, "arg": "file", "via_file": True, "input_order": "zyx"}),
          ("h_op", {"op": "bin", "n": 2, "arg": 2, "dtype": "int16", "input_order": "xyz", "output_order": "zyx"}), ("h_op", {"op": "bin", "n": 2, "arg": 3, "dtype": "int16", "input_order": "zyx", "output_order": "zyx", "out_file": True}),
          ("h_op", {"op": "remove", "n": 5, "arg": ([1, 4], True, "txt"), "out_file": True}), ("h_op", {"op": "remove", "n": 4, "arg": ([0, 3], False, "txt"), "dtype": "int16", "input_order": "zyx"}),
          ("h_op", {"op": "remove", "n": 5, "arg": ([2, 3], True, "csv"), "input_order": "zyx", "output_order": "zyx"}),
          ("h_op", {"op": "flip", "n": 3, "arg": ["x", "x"], "out_file": True}), ("h_op", {"op": "flip", "n": 2, "arg": ["x", "y", "x"], "dtype": "int16", "input_order": "zyx"}),
          ("h_op", {"op": "flip", "n": 4, "arg": ["z", "y", "z", "y"], "via_file": True, "input_order": "zyx", "output_order": "zyx"}),
          ("h_merge", {"nfiles": 12}), ("h_merge", {"nfiles": 10, "padded": True}),
          ("h_op", {"op": "split", "n": 7, "dtype": "int16", "out_file": True}), ("h_op", {"op": "split", "n": 3, "via_file": True, "input_order": "zyx"})]
    if tier == "thorough":
        j += [("h_op", {"op": "sort", "n": 4}), ("h_op", {"op": "bin", "n": 2, "arg": 4, "dtype": "int16", "out_file": True}),
              ("h_op", {"op": "remove", "n": 8, "arg": ([1, 8, 5], True), "via_file": True, "out_file": True})]
    return j
