"""C20 — membrane thickness pairs: one-to-one, forward, within range and cone."""
import itertools
import numpy as np
from .common import *  # noqa

PROPERTY = "C20"
EXPLANATION = ("Real memthick.measure_thickness_cpu / process_matches_cpu2cpu and the Python source of the numba kernel find_matches_parallel (JIT decorator "
               "dropped, prange = range) on symbolic 3-D points, unit normals, voxel size, maximum thickness and cone half-angle (a point of the unit "
               "circle between 1 and 30 degrees); scipy's KD-tree replaced by a closed-ball brute-force specification. Every distance / projection / cone "
               "comparison forks the path; on each path the pairing is checked by SMT.")
ASSUMPTIONS = ["1 (quick) / 2 (thorough) source points and 2 target points in [-20,20]^3, unit normals, voxel size in [0.1,5], max thickness in [0.5,30] nm, max angle in [1,30] degrees",
               "no two candidate pairs of exactly equal length (the greedy order would be ambiguous); surface labelling and direction enumerated"]
OUTSIDE = ["the CUDA kernels (not executable here)", "more than 4 SYMBOLIC points (h_dense adds 27 concrete neighbours around one symbolic target: the per-point candidate limit)", "rigid-motion invariance is argued from the formulas (all quantities are distances / inner products of differences with normals) and evaluated on concrete witnesses only",
           "float rounding (A0); float32 storage of the thickness"]
WITNESS_ONLY = ['rigid-motion invariance of the pairing: evaluated on concrete witnesses only']
BOUNDS = {"quick": {"sources": 1, "targets": 2}, "thorough": {"sources": 2, "targets": 2}}
EXPECTED_EXCEPTIONS = ()
OPTS = {"qtimeout": 8.0, "otimeout": 40.0, "max_paths": 600, "budget_s": 170}
OPTS_THOROUGH = {'max_paths': 20000, 'budget_s': 1200}


def _false(env):
    return env.not_(env.true())


OFFS = [[0.5, -0.25, 3.0], [-1.0, 0.75, 4.5], [2.0, 1.0, 2.5], [0.25, 0.25, -3.0]]


def _setup(env, ns, nt, labelling="first", mode="general", angle=None, zx=0.5):
    """mode 'general': every coordinate and normal symbolic.  'targets': sources concrete (spread on a plane, normal +z),
    targets fully symbolic.  'normals': source positions and normals symbolic (unit), targets = first source + concrete
    offsets (so the offsets are concrete and the projections are linear in the normal)."""
    pts, nrm = [], []
    n = ns + nt
    src_idx = list(range(ns)) if labelling == "first" else list(range(nt, n))
    for i in range(n):
        is_src = i in src_idx
        if mode == "zline":
            # two sources side by side (normal +z), targets above them whose HEIGHT is symbolic: both sources see both targets,
            # so they compete for the nearer one and the loser must fall back on the other
            if is_src:
                k = src_idx.index(i)
                pts.append([1.25 * k, 0.0, 0.0])
            else:
                k = [q for q in range(n) if q not in src_idx].index(i)
                pts.append([zx, 0.125 * (1 if k % 2 == 0 else -1) * (1 + k // 2), env.real("h%d" % k, 0.5, 15)])
        elif mode == "general" or (mode == "targets" and not is_src) or (mode == "normals" and is_src):
            pts.append([env.real("p%d%s" % (i, a), -20, 20) for a in "xyz"])
        elif mode == "targets":
            k = src_idx.index(i)
            pts.append([3.0 * k, -2.0 * k, 0.0])
        else:
            pts.append(None)        # filled below relative to the first source
        if mode == "general" or (mode == "normals" and is_src):
            v = [env.real("n%d%s" % (i, a), -1, 1) for a in "xyz"]
            env.assume(env.eq(sum(c * c for c in v), 1.0))
        else:
            v = [0.0, 0.0, 1.0] if is_src else [0.0, 0.0, -1.0]
        nrm.append(v)
    if mode == "normals":
        base = pts[src_idx[0]]
        q = 0
        for i in range(n):
            if pts[i] is None:
                pts[i] = [base[k] + OFFS[q % len(OFFS)][k] for k in range(3)]
                q += 1
    if labelling == "first":
        s1 = [True] * ns + [False] * nt
    else:       # targets listed first: index 0 is a target
        s1 = [False] * nt + [True] * ns
    s2 = [not b for b in s1]
    voxel = env.real("voxel", 0.1, 5)
    maxt = env.real("maxt", 0.5, 30)
    if angle is not None:
        return pts, nrm, s1, s2, voxel, maxt, float(angle)          # enumerated concrete half-angle (degrees)
    ang = env.angle("maxang")
    # 1 deg <= angle <= 30 deg on the unit circle
    env.assume(env.and_(env.gt(env.cos(ang), 0.8660254037844386), env.gt(env.sin(ang), 0.01745240643728351)))
    return pts, nrm, s1, s2, voxel, maxt, ang


def _arr(env, rows):
    if env.mode == "sym":
        a = np.empty((len(rows), 3), dtype=object)
        for i, r in enumerate(rows):
            for j, v in enumerate(r):
                a[i, j] = v
        return a
    return np.array([[float(v) for v in r] for r in rows])


def _geom(env, pts, nrm, i, j):
    d = [pts[j][k] - pts[i][k] for k in range(3)]
    dist2 = sum(v * v for v in d)
    proj = sum(d[k] * nrm[i][k] for k in range(3))
    lat2 = dist2 - proj * proj
    return d, dist2, proj, lat2


def _cone(env, ang, lat2, proj, op="lt"):
    """lateral^2 < tan(angle)^2 * proj^2"""
    import math
    if isinstance(ang, float):
        t2 = math.tan(math.radians(ang)) ** 2
        return env.lt(lat2, t2 * proj * proj) if op == "lt" else (env.le(lat2, t2 * proj * proj) if op == "le" else env.eq(lat2, t2 * proj * proj))
    c, s = env.cos(ang), env.sin(ang)
    a, b = lat2 * c * c, s * s * proj * proj
    return env.lt(a, b) if op == "lt" else (env.le(a, b) if op == "le" else env.eq(a, b))


def _not_on_cone_boundary(env, ang, lat2, proj):
    import math
    if isinstance(ang, float):
        t2 = math.tan(math.radians(ang)) ** 2
        # a relative margin around the cone surface: the code's float constant and this one may differ in the last bits
        return env.or_(env.lt(lat2, t2 * (1 - 1e-9) * proj * proj), env.gt(lat2, t2 * (1 + 1e-9) * proj * proj))
    return env.not_(_cone(env, ang, lat2, proj, "eq"))


def _admissible(env, pts, nrm, i, j, voxel, maxt, ang, strict_cone=True):
    d, dist2, proj, lat2 = _geom(env, pts, nrm, i, j)
    r = maxt / voxel
    return env.and_(env.le(dist2, r * r), env.gt(proj, 0.0), _cone(env, ang, lat2, proj, "lt"))


def h_pairs(env, ns=1, nt=2, direction="1to2", labelling="first", mode="general", angle=None, zx=0.5, near_limit=False, reference=False):
    mt = env.module("memthick")
    pts, nrm, s1, s2, voxel, maxt, ang = _setup(env, ns, nt, labelling, mode, angle, zx)
    n = ns + nt
    src = [i for i in range(n) if (s1[i] if direction == "1to2" else s2[i])]
    tgt = [i for i in range(n) if i not in src]
    cand = [(i, j) for i in src for j in tgt]
    for (a, b), (c_, d_) in itertools.combinations(cand, 2):
        env.assume(env.not_(env.eq(_geom(env, pts, nrm, a, b)[1], _geom(env, pts, nrm, c_, d_)[1])))
    for (a, b) in cand:       # boundary cases of the cone / forward tests excluded (measure zero; strict vs non-strict is not fixed by the property)
        d, dist2, proj, lat2 = _geom(env, pts, nrm, a, b)
        env.assume(env.and_(env.not_(env.eq(proj, 0.0)), _not_on_cone_boundary(env, ang, lat2, proj), env.not_(env.eq(dist2 * voxel * voxel, maxt * maxt))))
    if near_limit:
        # a membrane almost as thick as the limit: the first candidate pair lies between 96 % and 100 % of the maximum thickness
        a0, b0 = cand[0]
        d0 = _geom(env, pts, nrm, a0, b0)[1]
        env.assume(env.and_(env.ge(d0 * voxel * voxel * 10000, maxt * maxt * 9216), env.lt(d0 * voxel * voxel, maxt * maxt), env.gt(_geom(env, pts, nrm, a0, b0)[2], 0.0)))
    P, Nm = _arr(env, pts), _arr(env, nrm)
    m1, m2 = np.array(s1, dtype=bool), np.array(s2, dtype=bool)
    thick, valid, pairs = mt.measure_thickness_cpu(P, Nm, m1, m2, voxel, max_thickness_nm=maxt, max_angle_degrees=ang, direction=direction)
    matched = {}
    for i in range(n):
        if bool(valid[i]):
            matched[i] = int(pairs[i])
    env.check("only_source_points_are_matched", env.true() if all(i in src for i in matched) else _false(env))
    env.check("targets_are_target_points", env.true() if all(j in tgt for j in matched.values()) else _false(env))
    env.check("no_target_used_twice", env.true() if len(set(matched.values())) == len(matched) else _false(env))
    used = set(matched.values())
    for i, j in matched.items():
        d, dist2, proj, lat2 = _geom(env, pts, nrm, i, j)
        env.check("pair_%d_%d_thickness_is_distance_times_voxel" % (i, j), env.and_(env.eq(thick[i] * thick[i], dist2 * voxel * voxel), env.ge(thick[i], 0.0)))
        env.check("pair_%d_%d_within_max_thickness" % (i, j), env.le(dist2 * voxel * voxel, maxt * maxt))
        env.check("pair_%d_%d_target_ahead_along_normal" % (i, j), env.gt(proj, 0.0))
        env.check("pair_%d_%d_inside_cone" % (i, j), _cone(env, ang, lat2, proj, "le"))
        # greedy by increasing distance: no closer admissible target is left unmatched
        for j2 in tgt:
            if j2 not in used:
                closer = env.lt(_geom(env, pts, nrm, i, j2)[1], dist2)
                env.check("pair_%d_%d_no_closer_free_target_%d" % (i, j, j2), env.not_(env.and_(closer, _admissible(env, pts, nrm, i, j2, voxel, maxt, ang))))
    for i in src:
        if i in matched:
            continue
        for j in tgt:
            if j not in used:
                env.check("unmatched_%d_%d_not_admissible" % (i, j), env.not_(_admissible(env, pts, nrm, i, j, voxel, maxt, ang)))
    env.note("matched", sorted(matched.items()))
    if reference:
        # "pairs are chosen greedily by increasing distance": the pairing itself is compared with a reference greedy matching
        # over the admissible candidate pairs (the comparisons needed to order the candidates are decided by the solver on this path)
        import functools
        adm = [(i, j) for (i, j) in cand if bool(_admissible(env, pts, nrm, i, j, voxel, maxt, ang))]
        adm.sort(key=functools.cmp_to_key(lambda p_, q_: -1 if bool(env.lt(_geom(env, pts, nrm, p_[0], p_[1])[1], _geom(env, pts, nrm, q_[0], q_[1])[1])) else 1))
        ref, used_s, used_t = {}, set(), set()
        for (i, j) in adm:
            if i not in used_s and j not in used_t:
                ref[i] = j
                used_s.add(i)
                used_t.add(j)
        env.check("pairing_equals_reference_greedy_matching", env.true() if ref == matched else _false(env))


def h_dense(env, n_lateral=27, angle=20.0):
    """More than 25 ball neighbours, exactly one of them admissible and listed LAST: the per-point candidate limit of the
    implementation must apply to admissible candidates, not to the raw neighbour list.  One concrete source at the origin
    (normal +z), `n_lateral` concrete targets inside the ball but far outside the cone, one symbolic target inside cone and ball."""
    mt = env.module("memthick")
    pts, nrm = [[0.0, 0.0, 0.0]], [[0.0, 0.0, 1.0]]
    for k in range(n_lateral):
        r = 2.0 + 0.03125 * k                      # pairwise different distances (no ties), binary-exact
        d = [(r, 0.0), (0.0, r), (-r, 0.0), (0.0, -r)][k % 4]
        pts.append([d[0], d[1], 0.25])
        nrm.append([0.0, 0.0, -1.0])
    t = [env.real("t%s" % a, -6, 6) for a in "xyz"]
    pts.append(t)
    nrm.append([0.0, 0.0, -1.0])
    n = len(pts)
    voxel = env.real("voxel", 0.5, 2)
    maxt = env.real("maxt", 0.5, 30)
    env.assume(env.ge(maxt, 4 * voxel))             # all lateral targets (distance < 3) are inside the ball
    s1 = [True] + [False] * (n - 1)
    s2 = [not b for b in s1]
    j = n - 1
    d, dist2, proj, lat2 = _geom(env, pts, nrm, 0, j)
    env.assume(env.and_(env.not_(env.eq(proj, 0.0)), _not_on_cone_boundary(env, angle, lat2, proj), env.not_(env.eq(dist2 * voxel * voxel, maxt * maxt))))
    for k in range(1, n - 1):
        env.assume(env.not_(env.eq(_geom(env, pts, nrm, 0, k)[1], dist2)))
    P, Nm = _arr(env, pts), _arr(env, nrm)
    thick, valid, pairs = mt.measure_thickness_cpu(P, Nm, np.array(s1, dtype=bool), np.array(s2, dtype=bool), voxel, max_thickness_nm=maxt, max_angle_degrees=angle, direction="1to2")
    adm = _admissible(env, pts, nrm, 0, j, voxel, maxt, angle)
    if bool(valid[0]):
        env.check("dense_pair_is_the_admissible_target", env.and_(adm, env.true() if int(pairs[0]) == j else _false(env)))
        env.check("dense_thickness", env.eq(thick[0] * thick[0], dist2 * voxel * voxel))
    else:
        env.check("dense_unmatched_implies_not_admissible", env.not_(adm))


def h_kernel(env, ns=1, nt=2, mode="general", angle=None):
    """the numba candidate kernel (run from its Python source) finds the same candidates as the CPU loop's cone/range test"""
    mt = env.module("memthick")
    pts, nrm, s1, s2, voxel, maxt, ang = _setup(env, ns, nt, "first", mode, angle)
    n = ns + nt
    src = [i for i in range(n) if s1[i]]
    tgt = [i for i in range(n) if s2[i]]
    for (a, b) in [(i, j) for i in src for j in tgt]:
        d, dist2, proj, lat2 = _geom(env, pts, nrm, a, b)
        env.assume(env.and_(env.not_(env.eq(proj, 0.0)), _not_on_cone_boundary(env, ang, lat2, proj), env.not_(env.eq(dist2 * voxel * voxel, maxt * maxt))))
    P, Nm = _arr(env, pts), _arr(env, nrm)
    r = maxt / voxel
    t2 = (env.sin(ang) / env.cos(ang)) * (env.sin(ang) / env.cos(ang)) if (env.mode == "sym" and not isinstance(ang, float)) else float(np.tan(np.radians(float(ang))) ** 2)
    md = np.zeros((n, 25), dtype=object if env.mode == "sym" else np.float32)
    mi = np.zeros((n, 25), dtype=np.int32)
    mc = np.zeros(n, dtype=np.int32)
    fn = mt.find_matches_parallel
    fn = getattr(fn, "py_func", fn)
    fn(P, Nm, np.array(s1, dtype=bool), np.array(s2, dtype=bool), np.array(tgt, dtype=np.int64), r, t2, md, mi, mc)
    for i in src:
        got = set(int(mi[i, q]) for q in range(int(mc[i])))
        for j in tgt:
            adm = _admissible(env, pts, nrm, i, j, voxel, maxt, ang)
            if j in got:
                env.check("kernel_candidate_%d_%d_is_admissible" % (i, j), adm)
            else:
                env.check("kernel_non_candidate_%d_%d_is_not_admissible" % (i, j), env.not_(adm))


def jobs(tier, seed):
    j = [("h_pairs", {"ns": 1, "nt": 2, "direction": "1to2", "mode": "targets"}), ("h_pairs", {"ns": 1, "nt": 2, "direction": "2to1", "labelling": "targets_first", "mode": "normals"}),
         ("h_pairs", {"ns": 1, "nt": 2, "direction": "1to2", "labelling": "targets_first", "mode": "targets"}),
         ("h_kernel", {"ns": 1, "nt": 2, "mode": "targets"}),
         ("h_pairs", {"ns": 1, "nt": 2, "direction": "1to2", "mode": "targets", "angle": 30.0}), ("h_pairs", {"ns": 1, "nt": 2, "direction": "1to2", "mode": "targets", "angle": 3.0}),
         ("h_kernel", {"ns": 1, "nt": 2, "mode": "targets", "angle": 20.0}), ("h_dense", {"n_lateral": 27, "angle": 20.0}),
         ("h_pairs", {"ns": 2, "nt": 2, "direction": "1to2", "mode": "zline", "angle": 20.0}), ("h_pairs", {"ns": 2, "nt": 2, "direction": "2to1", "labelling": "targets_first", "mode": "zline", "angle": 25.0}),
         ("h_pairs", {"ns": 2, "nt": 2, "direction": "1to2", "mode": "zline", "angle": 20.0, "zx": 0.875, "reference": True}),
         ("h_pairs", {"ns": 1, "nt": 2, "direction": "1to2", "mode": "targets", "angle": 20.0, "near_limit": True})]
    if tier == "thorough":
        j += [("h_pairs", {"ns": 2, "nt": 2, "direction": "1to2", "mode": "normals"}), ("h_kernel", {"ns": 1, "nt": 2, "mode": "normals"}),("h_pairs", {"ns": 1, "nt": 2, "direction": "1to2"}), ("h_pairs", {"ns": 2, "nt": 2, "direction": "1to2", "mode": "targets"}),("h_pairs", {"ns": 2, "nt": 2, "direction": "1to2"}), ("h_pairs", {"ns": 2, "nt": 2, "direction": "2to1", "labelling": "targets_first"}), ("h_kernel", {"ns": 2, "nt": 2})]
    return j
