"""C14 — map rotation, placement, windowing, symmetrisation share one active convention."""
import itertools, math
import numpy as np
from .common import *  # noqa

PROPERTY = "C14"
EXPLANATION = ("Real cryomap.rotate / get_start_end_indices / extract_subvolume / crop / pad / place_object / symmetrize_volume on lazy functional arrays. "
               "Right-angle rotations: scipy's affine_transform is exact index arithmetic (out[o] = in[M o + t]) when the matrix is a signed permutation, so "
               "for each of the 24 cube rotations, a symbolic cubic box size N (3..64, odd and even) and a symbolic voxel the relation "
               "rotate(m, angles)[c + R v] = m[c + v] is decided with R from the particle (zxz, active) convention. Windows: symbolic volume shape, even "
               "window shape, symbolic centre (integer and half-integer). Symmetrisation: rotate replaced by an opaque operator that is a function of "
               "(map content, matrix content).")
ASSUMPTIONS = ["cubic box N in [3,64] symbolic; voxel offset v with c+v and c+Rv at least one voxel away from every face",
               "windows: volume extents in [4,40], even window extents in [2,16], centre coordinates in [-30,70] as integers or half-integers",
               "symmetrisation: n in 2..12 enumerated; place_object: cube-rotation orientations, template 4^3/5^3 opaque, 1..2 poses"]
OUTSIDE = ["anything that depends on spline-interpolated values: inverse rotation restoring a smooth map, arbitrary-angle rotation of blobs, total density under non-right-angle rotation",
           "non-cubic boxes under rotation beyond four right-angle rotations (voxels that stay inside the box)"]
BOUNDS = {"quick": {"cube_rotations": 24, "N": "3..64 symbolic"}, "thorough": {"cube_rotations": 24, "N": "3..64 symbolic"}}
EXPECTED_EXCEPTIONS = ()
OPTS = {"qtimeout": 20.0}


def _false(env):
    return env.not_(env.true())


def at(arr, idx):
    if hasattr(arr, "at"):
        return arr.at(idx)
    return arr[tuple(int(i) for i in idx)]


def cube_angles():
    """24 zxz Euler triples (multiples of 90) giving the 24 distinct cube rotations"""
    seen, out = set(), []
    for a in itertools.product((0, 90, 180, 270), repeat=3):
        R = _Rint(a)
        key = tuple(tuple(r) for r in R)
        if key not in seen:
            seen.add(key)
            out.append(list(a))
    return out


def _Rint(angles):
    """integer matrix of the particle convention: R = Rz(psi) Rx(theta) Rz(phi) for zxz angles (phi, theta, psi)"""
    def rz(a):
        c, s = round(math.cos(math.radians(a))), round(math.sin(math.radians(a)))
        return [[c, -s, 0], [s, c, 0], [0, 0, 1]]

    def rx(a):
        c, s = round(math.cos(math.radians(a))), round(math.sin(math.radians(a)))
        return [[1, 0, 0], [0, c, -s], [0, s, c]]
    mm = lambda A, B: [[sum(A[i][k] * B[k][j] for k in range(3)) for j in range(3)] for i in range(3)]
    phi, theta, psi = angles
    return mm(rz(psi), mm(rx(theta), rz(phi)))


def h_rotate_cube(env, angles=(90, 0, 0), via="angles", noncubic=False):
    cm = env.module("cryomap")
    v = [env.integer("v%s" % a, -32, 32) for a in "xyz"]
    R = _Rint(angles)
    Rv = [sum(R[i][k] * v[k] for k in range(3)) for i in range(3)]
    if noncubic:
        # a box with three independent extents: the pivot is floor(N_k/2) on EVERY axis; the relation is claimed for the voxels
        # that lie inside the box (one voxel away from the faces) before and after the rotation
        NN = [env.integer("N%s" % a, 3, 40) for a in "xyz"]
        cc = [n_ // 2 for n_ in NN]
        src = [cc[k] + v[k] for k in range(3)]
        dst = [cc[k] + Rv[k] for k in range(3)]
        env.assume(env.and_(*[env.and_(env.ge(src[k], 1), env.le(src[k], NN[k] - 2), env.ge(dst[k], 1), env.le(dst[k], NN[k] - 2)) for k in range(3)]))
        env.assume(env.or_(env.not_(env.eq(NN[0], NN[2])), env.not_(env.eq(NN[0], NN[1]))))
        N = None
        if env.mode == "sym":
            from sx import larray
            m = larray.uf_array("m", tuple(NN))
        else:
            m = np.random.default_rng(2).standard_normal(tuple(int(n_) for n_ in NN))
    else:
        N = env.integer("N", 3, 64)
        c = N // 2
        src = [c + a for a in v]
        dst = [c + a for a in Rv]
        env.assume(env.and_(*[env.and_(env.ge(p, 1), env.le(p, N - 2)) for p in src + dst]))
        if env.mode == "sym":
            from sx import larray
            m = larray.uf_array("m", (N, N, N))
        else:
            m = np.random.default_rng(2).standard_normal((int(N),) * 3)
        NN = [N, N, N]
    if via == "angles":
        out = cm.rotate(m, rotation_angles=list(angles), spline_order=1 if env.mode == "conc" else 3)
    else:
        rot = cm.srot.from_euler("zxz", list(angles), degrees=True)
        out = cm.rotate(m, rotation=rot, transpose_rotation=True, spline_order=1 if env.mode == "conc" else 3)
    env.check("density_at_offset_v_moves_to_R_v", env.eq(at(out, dst), at(m, src)))
    env.check("shape_kept", env.and_(*[env.eq(s_, n_) for s_, n_ in zip(out.shape, NN)]))


def _half(env, name, lo, hi, half):
    k = env.integer(name, lo, hi)
    return (k + 0.5) if half else k


def h_window(env, fn="extract", half=False):
    cm = env.module("cryomap")
    V = [env.integer("V%s" % a, 4, 40) for a in "xyz"]
    S = [env.integer("S%s" % a, 1, 8) * 2 for a in "xyz"]            # even window
    coord = [_half(env, "k%s" % a, -30, 70, half) for a in "xyz"]
    a_ = [env.integer("a%s" % a, 0, 15) for a in "xyz"]               # window index
    env.assume(env.and_(*[env.lt(x, s) for x, s in zip(a_, S)]))
    if env.mode == "sym":
        from sx import larray
        vol = larray.uf_array("vol", tuple(V))
        co = objcol(coord)
        ss = objcol(S)
    else:
        vol = np.random.default_rng(4).standard_normal(tuple(int(x) for x in V))
        co = np.array([float(x) for x in coord])
        ss = np.array([int(x) for x in S])
    # window voxel a reads volume voxel floor(coord - S/2) + a
    start = [_floor(env, coord[k] - S[k] / 2 if half else coord[k] - S[k] // 2, "st%d" % k, half) for k in range(3)]
    vidx = [start[k] + a_[k] for k in range(3)]
    inside = env.and_(*[env.and_(env.ge(vidx[k], 0), env.lt(vidx[k], V[k])) for k in range(3)])
    if fn == "extract":
        w = cm.extract_subvolume(vol, co, ss)
        env.check("window_shape", env.and_(*[env.eq(x, y) for x, y in zip(w.shape, S)]))
        val = at(w, a_)
        if env.mode == "sym":
            mean = _mean_symbol(vol)
            env.check("inside_voxel_copied", env.implies(inside, env.eq(val, _guarded(env, inside, vol, vidx))))
            env.check("outside_voxel_is_volume_mean", env.implies(env.not_(inside), env.eq(val, mean)))
        else:
            if bool(inside):
                env.check("inside_voxel_copied", env.eq(val, at(vol, vidx)))
            else:
                env.check("outside_voxel_is_volume_mean", env.eq(val, float(np.mean(vol))))
    elif fn == "extract_enforce":
        # enforce_shape: the result has the VOLUME's shape; the requested window keeps the volume's voxels, everything else is the mean
        w = cm.extract_subvolume(vol, co, ss, enforce_shape=True)
        env.check("result_has_volume_shape", env.and_(*[env.eq(x, y) for x, y in zip(w.shape, V)]))
        q = [env.integer("q%s" % a, 0, 39) for a in "xyz"]
        env.assume(env.and_(*[env.lt(x, v) for x, v in zip(q, V)]))
        in_win = env.and_(*[env.and_(env.ge(q[k], start[k]), env.lt(q[k], start[k] + S[k])) for k in range(3)])
        val = at(w, q)
        if env.mode == "sym":
            mean = _mean_symbol(vol)
            env.check("window_voxels_kept", env.implies(in_win, env.eq(val, vol.at(q))))
            env.check("other_voxels_are_volume_mean", env.implies(env.not_(in_win), env.eq(val, mean)))
        else:
            env.check("window_voxels_kept" if bool(in_win) else "other_voxels_are_volume_mean", env.eq(val, at(vol, q) if bool(in_win) else float(np.mean(vol))))
    else:
        vs, ve, ws, we = cm.get_start_end_indices(co, tuple(V) if env.mode == "conc" else objcol(V), ss)
        for k in range(3):
            lo = env.ite(env.lt(start[k], 0), 0, env.ite(env.gt(start[k], V[k]), V[k], start[k]))
            end = start[k] + S[k]
            hi = env.ite(env.gt(end, V[k]), V[k], env.ite(env.lt(end, 0), 0, end))
            env.check("volume_start_clipped_%d" % k, env.eq(vs[k], lo))
            env.check("volume_end_clipped_%d" % k, env.eq(ve[k], hi))
            env.check("window_start_%d" % k, env.eq(ws[k], env.ite(env.gt(lo - start[k], S[k]), S[k], lo - start[k])))
            env.check("window_end_%d" % k, env.eq(we[k], env.ite(env.lt(hi - start[k], 0), 0, hi - start[k])))


def _floor(env, x, name, half):
    if not half:
        return x
    # floor of (k + 1/2 - S/2) with S even: k - S/2
    f = env.integer(name, -100, 100)
    env.assume(env.and_(env.le(f, x), env.lt(x, f + 1)))
    return f


def _mean_symbol(vol):
    from sx import core
    import z3
    return core.SNum(z3.Real("mean_of_array_v%d" % vol.version))


def _guarded(env, cond, vol, idx):
    return vol.at(idx)


def h_crop_pad(env, fn="crop"):
    cm = env.module("cryomap")
    V = [env.integer("V%s" % a, 4, 40) for a in "xyz"]
    if env.mode == "sym":
        from sx import larray
        vol = larray.uf_array("vol", tuple(V))
    else:
        vol = np.random.default_rng(4).standard_normal(tuple(int(x) for x in V))
    if fn == "crop":
        S = [env.integer("S%s" % a, 1, 8) * 2 for a in "xyz"]
        env.assume(env.and_(*[env.le(s, v) for s, v in zip(S, V)]))
        a_ = [env.integer("a%s" % a, 0, 15) for a in "xyz"]
        env.assume(env.and_(*[env.lt(x, s) for x, s in zip(a_, S)]))
        out = cm.crop(vol, list(S) if env.mode == "sym" else [int(s) for s in S])
        env.check("crop_shape", env.and_(*[env.eq(x, y) for x, y in zip(out.shape, S)]))
        src = [V[k] // 2 - S[k] // 2 + a_[k] for k in range(3)]
        env.check("crop_is_central_window", env.eq(at(out, a_), at(vol, src)))
    else:
        P = [env.integer("P%s" % a, 4, 60) for a in "xyz"]
        env.assume(env.and_(*[env.ge(p, v) for p, v in zip(P, V)]))
        a_ = [env.integer("a%s" % a, 0, 59) for a in "xyz"]
        env.assume(env.and_(*[env.lt(x, s) for x, s in zip(a_, P)]))
        fill = env.real("fill", -5, 5)
        out = cm.pad(vol, list(P) if env.mode == "sym" else [int(p) for p in P], fill_value=fill)
        st = [_ceil_half(env, P[k] - V[k], "pst%d" % k) for k in range(3)]
        rel = [a_[k] - st[k] for k in range(3)]
        inside = env.and_(*[env.and_(env.ge(rel[k], 0), env.lt(rel[k], V[k])) for k in range(3)])
        val = at(out, a_)
        if env.mode == "sym":
            env.check("padded_inside_is_volume", env.implies(inside, env.eq(val, vol.at(rel))))
            env.check("padded_outside_is_fill", env.implies(env.not_(inside), env.eq(val, fill)))
        else:
            env.check("padded_value", env.eq(val, at(vol, rel) if bool(inside) else fill))


def _ceil_half(env, d, name):
    k = env.integer(name, 0, 60)
    env.assume(env.and_(env.ge(k * 2, d), env.lt(k * 2, d + 2)))       # k = ceil(d/2)
    return k


def h_symmetrize(env, n=3, spelling="num"):
    cm = env.module("cryomap")
    N = env.integer("N", 6, 32)
    p = [env.integer("p%s" % a, 0, 31) for a in "xyz"]
    env.assume(env.and_(*[env.lt(a, N) for a in p]))
    if env.mode == "sym":
        from sx import larray
        vol = larray.uf_array("vol", (N, N, N))
    else:
        x = np.random.default_rng(6).standard_normal((int(N),) * 3)
        from scipy.ndimage import gaussian_filter
        vol = gaussian_filter(x, 1.5)
    sym = {"num": n, "C": "C%d" % n}[spelling]
    out = cm.symmetrize_volume(vol, sym)
    tot = 0
    for k in range(1, n + 1):
        ang = (k * (360 / n)) % 360
        tot = tot + at(cm.rotate(vol, rotation_angles=[0, 0, ang]), p)
    env.check("mean_of_n_rotated_copies", env.eq(at(out, p), tot / n))


def h_place(env, angles=(90, 0, 0), tsize=4, two=False, feature="object_id"):
    cm = env.module("cryomap")
    cmo = env.module("cryomotl")
    env.option("lazy", True)
    V = [env.integer("V%s" % a, 8, 24) for a in "xyz"]
    pos = [env.integer("pos%s" % a, -3, 30) for a in "xyz"]          # 1-based complete position (integer)
    q = [env.integer("q%s" % a, 0, 23) for a in "xyz"]
    env.assume(env.and_(*[env.lt(a, b) for a, b in zip(q, V)]))
    col = env.real("colour", 1, 9) if feature == "object_id" else env.real("colour", 0.05, 0.95)
    rows = [{"x": pos[0], "y": pos[1], "z": pos[2], "phi": float(angles[0]), "theta": float(angles[1]), "psi": float(angles[2]), "object_id": 1.0, "subtomo_id": 1.0, "tomo_id": 1.0}]
    rows[0][feature] = col
    m = mk_motl(env, cmo, rows)
    T = tsize
    if env.mode == "sym":
        from sx import larray
        tmpl = larray.uf_array("tmpl", (T, T, T), binary=True)
        shape = objcol(V)
    else:
        tmpl = (np.random.default_rng(8).random((T, T, T)) > 0.5).astype(float)
        shape = tuple(int(v) for v in V)
    out = cm.place_object(tmpl, m, volume_shape=shape) if feature == "object_id" else cm.place_object(tmpl, m, volume_shape=shape, feature_to_color=feature)
    # container voxel q (0-based) lies in the stamped box iff q = floor(pos-1 - T/2) + a for a window index a in [0,T)
    start = [pos[k] - 1 - (T + 1) // 2 for k in range(3)]           # floor(pos - 1 - T/2) for integer pos
    a_ = [q[k] - start[k] for k in range(3)]
    inbox = env.and_(*[env.and_(env.ge(a_[k], 0), env.lt(a_[k], T)) for k in range(3)])
    val = at(out, q)
    # rotated template voxel a_ = template voxel c + R^T (a_ - c) (inside the template, else 0)
    R = _Rint(angles)
    c = T // 2
    srcv = [c + sum(R[j][i] * (a_[j] - c) for j in range(3)) for i in range(3)]
    src_in = env.and_(*[env.and_(env.ge(s, 0), env.lt(s, T)) for s in srcv])
    # template voxels on the template's faces can fall outside the interpolation domain by rounding (same exclusion as for
    # rotate): the claim is about template voxels at least one voxel away from every face, and about voxels outside the box
    interior = env.and_(*[env.and_(env.ge(s, 1), env.le(s, T - 2)) for s in list(srcv) + list(a_)])
    env.assume(env.or_(interior, env.not_(inbox)))
    if env.mode == "sym":
        set_ = env.and_(inbox, src_in, env.gt(tmpl.at(srcv), 0.1))
        env.check("stamped_voxel_has_colour", env.implies(set_, env.eq(val, col)))
        env.check("other_voxels_stay_zero", env.implies(env.not_(set_), env.eq(val, 0.0)))
    else:
        set_ = bool(inbox) and bool(src_in) and at(tmpl, srcv) > 0.1
        env.check("stamped_voxel_has_colour" if set_ else "other_voxels_stay_zero", env.eq(val, col if set_ else 0.0))


def jobs(tier, seed):
    j = []
    for k, a in enumerate(cube_angles()):
        j.append(("h_rotate_cube", {"angles": a, "via": "angles" if k % 2 == 0 else "rotation"}))
    j += [("h_rotate_cube", {"angles": [90, 0, 0], "noncubic": True}), ("h_rotate_cube", {"angles": [0, 180, 0], "noncubic": True, "via": "rotation"}),
          ("h_rotate_cube", {"angles": [90, 90, 0], "noncubic": True}), ("h_rotate_cube", {"angles": [180, 90, 270], "noncubic": True})]
    j += [("h_window", {"fn": "extract"}), ("h_window", {"fn": "extract", "half": True}), ("h_window", {"fn": "extract_enforce"}),
          ("h_crop_pad", {"fn": "crop"}), ("h_crop_pad", {"fn": "pad"})]
    for n in ((2, 3, 4, 7) if tier == "quick" else range(2, 13)):
        j.append(("h_symmetrize", {"n": n, "spelling": "num" if n % 2 else "C"}))
    j += [("h_place", {"angles": [90, 0, 0], "tsize": 4}), ("h_place", {"angles": [0, 90, 90], "tsize": 4}), ("h_place", {"angles": [180, 90, 270], "tsize": 5}),
          ("h_place", {"angles": [90, 90, 0], "tsize": 4, "feature": "score"})]
    if tier == "quick":
        j.append(("h_symmetrize", {"n": 12, "spelling": "C"}))
    return j
