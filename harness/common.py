"""Helpers shared by the harnesses.  Everything here is polymorphic over SymEnv / ConcEnv."""
import numpy as np
import pandas as pd

COLS = ["score", "geom1", "geom2", "subtomo_id", "tomo_id", "object_id", "subtomo_mean", "x", "y", "z",
        "shift_x", "shift_y", "shift_z", "geom3", "geom4", "geom5", "phi", "psi", "theta", "class"]


def objcol(vals):
    a = np.empty(len(vals), dtype=object)
    for i, v in enumerate(vals):
        a[i] = v
    return a


def mk_df(env, rows, cols=COLS):
    """DataFrame of particles.  sym: every column dtype object (pandas 3 refuses symbolic objects in float64
    columns); conc: float64 like a user's table."""
    if env.mode == "sym":
        return pd.DataFrame({c: objcol([r.get(c, 0.0) for r in rows]) for c in cols}, columns=cols)
    return pd.DataFrame({c: np.array([float(r.get(c, 0.0)) for r in rows], dtype=float) for c in cols}, columns=cols)


def mk_motl(env, cm, rows):
    return cm.Motl(mk_df(env, rows))


def particle(env, tag, pos=True, shifts=True, angles=True, ids=None, lo=-1000, hi=1000):
    p = {}
    if pos:
        for c in ("x", "y", "z"):
            p[c] = env.real("%s_%s" % (c, tag), lo, hi)
    if shifts:
        for c in ("shift_x", "shift_y", "shift_z"):
            p[c] = env.real("%s_%s" % (c, tag), lo, hi)
    if angles:
        for c in ("phi", "theta", "psi"):
            p[c] = env.angle("%s_%s" % (c, tag))
    for k, v in (ids or {}).items():
        p[k] = v
    return p


def row(df, i):
    return {c: df[c].iloc[i] for c in df.columns}


# ---- independent rotation formulas (oracle side; not shared with sx.rotation) -------------------


def mat_mul(A, B):
    return [[sum(A[i][k] * B[k][j] for k in range(3)) for j in range(3)] for i in range(3)]


def mat_vec(A, v):
    return [sum(A[i][k] * v[k] for k in range(3)) for i in range(3)]


def mat_T(A):
    return [[A[j][i] for j in range(3)] for i in range(3)]


def Rz(env, a):
    c, s = env.cos(a), env.sin(a)
    return [[c, -s, 0.0], [s, c, 0.0], [0.0, 0.0, 1.0]]


def Rx(env, a):
    c, s = env.cos(a), env.sin(a)
    return [[1.0, 0.0, 0.0], [0.0, c, -s], [0.0, s, c]]


def Ry(env, a):
    c, s = env.cos(a), env.sin(a)
    return [[c, 0.0, s], [0.0, 1.0, 0.0], [-s, 0.0, c]]


def R_zxz(env, phi, theta, psi):
    """Orientation matrix of a particle with motl angles (phi, theta, psi): extrinsic z-x-z, i.e. the
    reference is first rotated about z by phi, then about x by theta, then about z by psi."""
    return mat_mul(Rz(env, psi), mat_mul(Rx(env, theta), Rz(env, phi)))


def R_ZYZ_intrinsic(env, rot, tilt, psi):
    """RELION convention matrix for intrinsic Z-Y'-Z'' angles: R = Rz(rot) Ry(tilt) Rz(psi)."""
    return mat_mul(Rz(env, rot), mat_mul(Ry(env, tilt), Rz(env, psi)))


def mat_eq(env, A, B):
    return env.and_(*[env.eq(A[i][j], B[i][j]) for i in range(3) for j in range(3)])


def vec_eq(env, a, b):
    return env.and_(*[env.eq(x, y) for x, y in zip(a, b)])


def others_unchanged(env, before, after, changed):
    """every field not in `changed` is the very same value"""
    conds = []
    for c in COLS:
        if c in changed:
            continue
        conds.append(env.eq(before[c], after[c]))
    return env.and_(*conds)
