"""C12 — Fourier filters are the documented radial low/high/band-pass gains."""
import numpy as np
from .common import *  # noqa

PROPERTY = "C12"
EXPLANATION = ("Real cryomap.lowpass/highpass/bandpass/get_filter_radius/resolution2pixels/pixels2resolution (+ cryomask.spherical_mask as transfer "
               "function) executed on lazy functional arrays with FFT/IFFT as opaque linear operators and fftshift/ifftshift as exact index maps. "
               "The result is the term Real(IFFT(FFT(x) * G)); the real-code-built gain G is evaluated at one symbolic frequency index of a "
               "symbolic (non-cubic) box and compared with the documented radial gain.")
ASSUMPTIONS = ["box extents independent integers in [8,48]; cutoff integer in [1,24] Fourier pixels; frequency index anywhere in the box",
               "input map: arbitrary real voxel function (uninterpreted)", "Gaussian widths 0 (hard edge, decided exactly) and 2, 3 (Gaussian = opaque operator with range contract)"]
OUTSIDE = ["shape of the Gaussian edge (1 inside cutoff-4*sigma-1, 0 outside cutoff+4*sigma+1, monotone): numerics of skimage.filters.gaussian",
           "[0,1] range of the band-pass gain with two different Gaussians", "linearity / shift-commutation / realness follow from the term shape Real(IFFT(FFT(x)*G)) with G independent of x (structural consequence, not re-derived numerically)"]
WITNESS_ONLY = ['float-level: hard low-pass gain over the whole spectrum of 48^3 / 47^3 maps equals the integer-radius predicate for every cutoff 1..23 (h_lowpass_hard cubic job, concrete run)', 'band-pass map = difference of the two low-pass maps over the WHOLE box (h_bandpass): compared voxel by voxel by the concrete run (the symbolic obligation states it at one symbolic frequency)', 'Gaussian edge profile (gain 1 inside cutoff-4*sigma-1, 0 outside cutoff+4*sigma+1; h_soft_edge): evaluated with the real skimage only on the concrete witness input of each path - these two obligations exist only in the concrete run and are never counted as discharged']
BOUNDS = {"quick": {"box": "8..48 per axis symbolic"}, "thorough": {"box": "8..48 per axis symbolic"}}
EXPECTED_EXCEPTIONS = ()
OPTS = {"qtimeout": 30.0}


def _false(env):
    return env.not_(env.true())


def _setup(env, cubic=False):
    n = [env.integer("n%s" % a, 8, 48) for a in "xyz"]
    if cubic:
        env.assume(env.and_(env.eq(n[0], n[1]), env.eq(n[1], n[2])))
    f = [env.integer("f%s" % a, 0, 47) for a in "xyz"]
    env.assume(env.and_(*[env.lt(a, b) for a, b in zip(f, n)]))
    if env.mode == "sym":
        from sx import larray
        x = larray.uf_array("x", tuple(n))
    else:
        rng = np.random.default_rng(3)
        x = rng.standard_normal(tuple(int(v) for v in n))
    return n, f, x


def _gain(env, x, y, f):
    """transfer function value at frequency index f: sym: remembered by the opaque IFFT; conc: DFT(y)/DFT(x)"""
    if env.mode == "sym":
        from sx import core
        ok = hasattr(y, "gain") and getattr(y, "src", None) is not None and y.gain is not None
        if ok:   # the transformed array is the input map (voxel-wise the same term)
            ok = core.zreal(y.src.at(f)).eq(core.zreal(x.at(f)))
        env.check("result_is_Real_IFFT_of_FFT_x_times_G", env.true() if ok else _false(env))
        if not ok:
            return None
        g = y.gain.at(f)
        from sx import solve, core
        indep = "x" not in solve._syms(core.zreal(g))
        env.check("gain_independent_of_the_map", env.true() if indep else _false(env))
        return g
    X, Y = np.fft.fftn(x), np.fft.fftn(y)
    idx = tuple(int(v) for v in f)
    env.check("result_is_real", env.true() if np.isrealobj(y) else _false(env))
    if abs(X[idx]) < 1e-9:
        raise SkipWitness()
    q = Y[idx] / X[idx]
    env.check("gain_is_real", env.true() if abs(q.imag) < 1e-6 else _false(env))
    return float(q.real)


class SkipWitness(Exception):
    pass


def _freq(env, f, n):
    """integer frequency of index f along an axis of extent n: f for f <= (n-1)//2, else f-n"""
    return [env.ite(env.lt(fa * 2, na), fa, fa - na) for fa, na in zip(f, n)]


def _radial_inside(env, f, n, r):
    q = _freq(env, f, n)
    return env.le(sum(v * v for v in q), r * r)


def h_lowpass_hard(env, kind="lowpass", cubic=False):
    cm = env.module("cryomap")
    n, f, x = _setup(env, cubic)
    r = env.integer("cut", 1, 24)
    fn = getattr(cm, kind)
    try:
        y = fn(x, fourier_pixels=r, gaussian=0)
    except SkipWitness:
        return
    try:
        g = _gain(env, x, y, f)
    except SkipWitness:
        return
    if g is None:
        return
    one_inside = kind == "lowpass"
    # one obligation pair per sign pattern of the three integer frequencies (each case is linear up to the squares)
    for case in range(8):
        hyp, q = [], []
        for a in range(3):
            low = env.lt(f[a] * 2, n[a])
            if (case >> a) & 1:
                hyp.append(low); q.append(f[a])
            else:
                hyp.append(env.not_(low)); q.append(f[a] - n[a])
        inside = env.le(sum(v * v for v in q), r * r)
        env.check("gain_inside_cutoff_case%d" % case, env.implies(env.and_(inside, *hyp), env.eq(g, 1.0 if one_inside else 0.0)))
        env.check("gain_beyond_cutoff_case%d" % case, env.implies(env.and_(env.not_(inside), *hyp), env.eq(g, 0.0 if one_inside else 1.0)))
    if env.mode == "conc" and cubic:
        # float-level clause (concrete run only): the hard gain over the WHOLE spectrum equals the integer predicate
        # qx^2+qy^2+qz^2 <= r^2 for every integer cutoff 1..23 on a 48^3 and a 47^3 map - components whose radius is exactly
        # the cutoff belong to the pass band
        bad = []
        for N in (48, 47):
            xx = np.random.default_rng(5).standard_normal((N, N, N))
            X = np.fft.fftn(xx)
            q = np.meshgrid(*[np.fft.fftfreq(N) * N for _ in range(3)], indexing="ij")
            rad2 = np.rint(q[0] ** 2 + q[1] ** 2 + q[2] ** 2).astype(int)
            for rr in range(1, 24):
                yy = getattr(cm, kind)(xx, fourier_pixels=rr, gaussian=0)
                G = (np.fft.fftn(np.asarray(yy, dtype=float)) / X).real
                expG = (rad2 <= rr * rr) if kind == "lowpass" else (rad2 > rr * rr)
                if np.max(np.abs(G - expG)) > 1e-6:
                    bad.append((N, rr))
        env.check("whole_spectrum_hard_gain_matches_integer_radius_predicate", len(bad) == 0)


def h_complement(env, sigma=2):
    cm = env.module("cryomap")
    n, f, x = _setup(env)
    r = env.integer("cut", 1, 24)
    yl = cm.lowpass(x, fourier_pixels=r, gaussian=sigma)
    yh = cm.highpass(x, fourier_pixels=r, gaussian=sigma)
    try:
        gl, gh = _gain(env, x, yl, f), _gain(env, x, yh, f)
    except SkipWitness:
        return
    if gl is None or gh is None:
        return
    env.check("highpass_is_complement_of_lowpass", env.eq(gh, 1.0 - gl))
    env.check("lowpass_gain_in_0_1", env.and_(env.ge(gl, -1e-9 if env.mode == "conc" else 0.0), env.le(gl, 1.0 + (1e-9 if env.mode == "conc" else 0.0))))
    env.check("highpass_gain_in_0_1", env.and_(env.ge(gh, -1e-9 if env.mode == "conc" else 0.0), env.le(gh, 1.0 + (1e-9 if env.mode == "conc" else 0.0))))


def h_bandpass(env, s_lp=3, s_hp=2, close=False):
    cm = env.module("cryomap")
    n, f, x = _setup(env)
    ro = env.integer("cut_outer", 2, 24)
    ri = env.integer("cut_inner", 1, 23)
    env.assume(env.lt(ri, ro))
    if close:
        # band edges one or two Fourier pixels apart, edges of different softness: the inner low-pass gain exceeds the outer
        # one at some frequencies, so the band gain is NEGATIVE there (the difference of the two low-passes, not a clipped mask)
        env.assume(env.and_(env.le(ro, ri + 2), env.ge(ri, 4), env.le(ro, 8), *[env.ge(v, 20) for v in n]))
    yb = cm.bandpass(x, lp_fourier_pixels=ro, hp_fourier_pixels=ri, lp_gaussian=s_lp, hp_gaussian=s_hp)
    yo = cm.lowpass(x, fourier_pixels=ro, gaussian=s_lp)
    yi = cm.lowpass(x, fourier_pixels=ri, gaussian=s_hp)
    if env.mode == "conc":
        # the concrete run has the whole maps: band-pass = low-pass(outer) - low-pass(inner) voxel by voxel
        d = np.asarray(yb, dtype=float) - (np.asarray(yo, dtype=float) - np.asarray(yi, dtype=float))
        env.check("whole_map_bandpass_is_difference_of_lowpasses", bool(np.max(np.abs(d)) <= 1e-9 * max(1.0, float(np.max(np.abs(np.asarray(x, dtype=float)))))))
    try:
        gb, go, gi = _gain(env, x, yb, f), _gain(env, x, yo, f), _gain(env, x, yi, f)
    except SkipWitness:
        return
    if gb is None or go is None or gi is None:
        return
    env.check("bandpass_is_difference_of_lowpasses", env.eq(gb, go - gi))
    if s_lp == 0 and s_hp == 0:
        for case in range(8):
            hyp, q = [], []
            for a in range(3):
                low = env.lt(f[a] * 2, n[a])
                if (case >> a) & 1:
                    hyp.append(low); q.append(f[a])
                else:
                    hyp.append(env.not_(low)); q.append(f[a] - n[a])
            d2 = sum(v * v for v in q)
            inside = env.and_(env.le(d2, ro * ro), env.gt(d2, ri * ri))
            env.check("hard_band_inside_case%d" % case, env.implies(env.and_(inside, *hyp), env.eq(gb, 1.0)))
            env.check("hard_band_outside_case%d" % case, env.implies(env.and_(env.not_(inside), *hyp), env.eq(gb, 0.0)))


def h_bandpass_resolution(env, s=0, px=2.0, res_lp=8.0, res_hp=16.0):
    """band edges given as target resolutions on a NON-cubic map: the band-pass must equal the difference of the two low-passes
    with the same parameters (same resolution, pixel size, Gaussian), whatever edge length the radius is derived from"""
    cm = env.module("cryomap")
    n, f, x = _setup(env)
    env.assume(env.and_(env.ge(n[0], 16), env.ge(n[1], 16), env.ge(n[2], 16)))
    yb = cm.bandpass(x, lp_target_resolution=res_lp, hp_target_resolution=res_hp, pixel_size=px, lp_gaussian=s, hp_gaussian=s)
    yo = cm.lowpass(x, target_resolution=res_lp, pixel_size=px, gaussian=s)
    yi = cm.lowpass(x, target_resolution=res_hp, pixel_size=px, gaussian=s)
    try:
        gb, go, gi = _gain(env, x, yb, f), _gain(env, x, yo, f), _gain(env, x, yi, f)
    except SkipWitness:
        return
    if gb is None or go is None or gi is None:
        return
    env.check("bandpass_by_resolution_is_difference_of_lowpasses", env.eq(gb, go - gi))


def h_soft_edge(env, sigma=1, region="pass", short=False):
    """Gaussian edge profile (numerics, outside the solver's reach): evaluated on the concrete witness run only.
    The solver still chooses the witness inside the region the clause talks about."""
    cm = env.module("cryomap")
    n, f, x = _setup(env)
    r = env.integer("cut", 4 * sigma + 4, 20)
    if short:
        # a flat (non-cubic) map whose short axes END inside the cutoff sphere: the transfer function runs into the box faces
        env.assume(env.and_(env.ge(n[0], 2 * r + 4), env.le(n[1], 10), env.le(n[2], 14), env.ge(r, 10)))
    else:
        env.assume(env.and_(*[env.ge(v, 2 * r + 8 * sigma + 4) for v in n]))
    q = _freq(env, f, n)
    d2 = sum(v * v for v in q)
    if region == "pass":
        lim = r - 4 * sigma - 1
        env.assume(env.and_(env.ge(d2, 1), env.le(d2, env.ite(env.lt(lim * lim, 9 * sigma * sigma), lim * lim, 9 * sigma * sigma))))
    else:
        lim = r + 4 * sigma + 1
        env.assume(env.gt(d2, lim * lim))
    y = cm.lowpass(x, fourier_pixels=r, gaussian=sigma)
    try:
        g = _gain(env, x, y, f)
    except SkipWitness:
        return
    if g is None:
        return
    env.check("soft_gain_in_0_1", env.and_(env.ge(g, -1e-9 if env.mode == "conc" else 0.0), env.le(g, 1.0 + (1e-9 if env.mode == "conc" else 0.0))))
    if env.mode == "conc":
        if region == "pass":
            env.check("gain_is_1_inside_cutoff_minus_4sigma_minus_1", g >= 1 - 2e-4)
        else:
            env.check("gain_is_0_outside_cutoff_plus_4sigma_plus_1", g <= 2e-4)
        # the concrete run has the whole spectrum: every component inside cutoff-4s-1 keeps gain 1, every one beyond cutoff+4s+1 gets 0
        X, Y = np.fft.fftn(np.asarray(x, dtype=float)), np.fft.fftn(np.asarray(y, dtype=float))
        qq = np.meshgrid(*[np.fft.fftfreq(int(k)) * int(k) for k in n], indexing="ij")
        rad2 = qq[0] ** 2 + qq[1] ** 2 + qq[2] ** 2
        ok_ = np.abs(X) > 1e-6 * np.abs(X).max()
        G = np.where(ok_, (Y / np.where(ok_, X, 1.0)).real, np.nan)
        rr, ss = float(r), float(sigma)
        inner, outer = ok_ & (rad2 <= (rr - 4 * ss - 1) ** 2), ok_ & (rad2 >= (rr + 4 * ss + 1) ** 2)
        env.check("whole_spectrum_gain_1_inside", bool(inner.sum() == 0 or np.nanmin(G[inner]) >= 1 - 5e-4))
        env.check("whole_spectrum_gain_0_outside", bool(outer.sum() == 0 or np.nanmax(np.abs(G[outer])) <= 5e-4))


def h_resolution(env):
    cm = env.module("cryomap")
    edge = env.integer("edge", 8, 512)
    px = env.real("pixel", 0.5, 10)
    res = env.real("res", 2, 200)
    k = cm.resolution2pixels(res, edge_size=edge, pixel_size=px, print_out=False)
    xval = edge * px / res
    env.check("pixels_is_integer", env.is_int(k))
    env.check("pixels_within_half", env.and_(env.le(k - 0.5, xval), env.le(xval, k + 0.5)))
    # ties go to the even neighbour (Python round); stated on 2*x being an odd integer
    if env.mode == "sym":
        import z3
        from sx import core
        kk = core.zterm(k)
        kk = kk if z3.is_int(kk) else z3.ToInt(kk)
        tie = env.or_(env.eq(xval - k, 0.5), env.eq(k - xval, 0.5))
        env.check("ties_to_even", env.implies(tie, core.SBool(kk % 2 == 0)))
    else:
        if abs(abs(xval - k) - 0.5) < 1e-12:
            env.check("ties_to_even", int(k) % 2 == 0)
    r2 = cm.get_filter_radius(edge, None, res, px)
    env.check("filter_radius_from_resolution", env.eq(r2, k))
    fp = env.integer("fp", 1, 256)
    env.check("filter_radius_from_pixels", env.eq(cm.get_filter_radius(edge, fp, None, None), fp))
    env.check("pixels2resolution", env.eq(cm.pixels2resolution(fp, edge, px, print_out=False) * fp, edge * px))


def jobs(tier, seed):
    j = [("h_lowpass_hard", {"kind": "lowpass"}), ("h_lowpass_hard", {"kind": "highpass"}), ("h_lowpass_hard", {"kind": "lowpass", "cubic": True}),
         ("h_complement", {"sigma": 0}), ("h_complement", {"sigma": 2}), ("h_complement", {"sigma": 3}),
         ("h_soft_edge", {"sigma": 1, "region": "pass"}), ("h_soft_edge", {"sigma": 2, "region": "pass"}), ("h_soft_edge", {"sigma": 1, "region": "stop"}), ("h_soft_edge", {"sigma": 1, "region": "pass", "short": True}),
         ("h_bandpass", {"s_lp": 0, "s_hp": 0}), ("h_bandpass", {"s_lp": 3, "s_hp": 2}), ("h_bandpass", {"s_lp": 3, "s_hp": 1, "close": True}), ("h_bandpass", {"s_lp": 0, "s_hp": 2, "close": True}), ("h_resolution", {}),
         ("h_bandpass_resolution", {"s": 0}), ("h_bandpass_resolution", {"s": 2, "px": 1.5, "res_lp": 6.0, "res_hp": 20.0})]
    if tier == "thorough":
        j += [("h_bandpass", {"s_lp": 2, "s_hp": 2}), ("h_complement", {"sigma": 1}), ("h_complement", {"sigma": 4})]
    return j
