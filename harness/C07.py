"""C07 — score-ranked distance suppression keeps a separated, dominating set."""
import itertools
import numpy as np
import pandas as pd
from .common import *  # noqa

PROPERTY = "C07"
EXPLANATION = ("Real Motl.clean_by_distance (+geom.point_pairwise_dist, get_motl_subset) on a real pandas frame with symbolic positions, shifts, scores and "
               "radius; the greedy loop's comparisons fork the path, and on every path the surviving/removed sets are checked against separation, "
               "domination and group-independence by SMT. Real tmana.scores_extract_particles on a small score map with symbolic (distinct) voxel "
               "scores, symbolic threshold and symbolic angle-list entries; voxel coordinates are concrete after the threshold fork, so the real scipy "
               "KD-tree and sklearn DBSCAN run unmodified.")
ASSUMPTIONS = ["clean_by_distance: N = 3 particles on a symbolic line (distances are |dx|: linear arithmetic) and N = 2 (quick) / 3 (thorough) in 3-D; scores pairwise distinct, and jobs with ties=True where equal scores are allowed; "
               "no pair at distance exactly d (ties excluded by the property); groups from {1,2} via solver forks; d in (0,100]; row labels 0..N-1 and, in two jobs, permuted ([2,0,1]) and gapped ([7,1,4]) labels as left by a selection without index reset",
               "score maps 2x2x1 (quick) / 3x2x1, 2x2x2 (thorough) with distinct scores; diameter in {1, 1.5, 2.5}; angle numbering 0/1; zxz/zzx"]
OUTSIDE = ["N > 3 particles in 3-D / > 4 on a line, maps > 8 voxels (the path count grows as N! * 2^pairs)", "dist_mask variant of clean_by_distance", "float rounding (A0)"]
BOUNDS = {"quick": {"particles": 3, "map_voxels": 4}, "thorough": {"particles": 4, "map_voxels": 8}}
EXPECTED_EXCEPTIONS = ()
OPTS = {"qtimeout": 10.0, "max_paths": 1500}
OPTS_THOROUGH = {'max_paths': 30000, 'budget_s': 1200}


def _false(env):
    return env.not_(env.true())


def _conc(env, v):
    if env.mode == "sym":
        from sx import core
        return float(core.concretize(v)) if core.is_sym(v) else float(v)
    return float(v)


def h_clean(env, n=3, line=True, feature="tomo_id", keep_greater=True, groups=True, ties=False, index=None):
    cm = env.module("cryomotl")
    rows = []
    for i in range(n):
        r = {"subtomo_id": float(i + 1), "object_id": 1.0, "tomo_id": 1.0, "class": 1.0, "geom1": float(10 + i)}
        r["x"] = env.real("x%d" % i, -100, 100)
        r["shift_x"] = env.real("sx%d" % i, -2, 2)
        if line:
            r["y"], r["z"], r["shift_y"], r["shift_z"] = 5.0, -3.0, 0.25, 0.5
        else:
            r["y"], r["z"] = env.real("y%d" % i, -100, 100), env.real("z%d" % i, -100, 100)
            r["shift_y"], r["shift_z"] = env.real("sy%d" % i, -2, 2), 0.0
        r["score"] = env.real("score%d" % i, -10, 10)
        r[feature] = _conc(env, env.choice("grp%d" % i, [1, 2])) if groups else 1.0
        rows.append(r)
    d = env.real("d", 0.001, 100)
    pos = [[r["x"] + r["shift_x"], r["y"] + r["shift_y"], r["z"] + r["shift_z"]] for r in rows]

    def dist2(a, b):
        return sum((pos[a][k] - pos[b][k]) * (pos[a][k] - pos[b][k]) for k in range(3))
    if not ties:
        env.assume(env.and_(*[env.not_(env.eq(rows[a]["score"], rows[b]["score"])) for a in range(n) for b in range(a + 1, n)]))
    # with ties=True equal scores are allowed (fresh lists carry score 0 everywhere; integer-valued metrics): the property asks
    # for an EQUAL OR BETTER close survivor, and for separation of the survivors whatever the scores are
    env.assume(env.and_(*[env.not_(env.eq(dist2(a, b), d * d)) for a in range(n) for b in range(a + 1, n)]))
    m = mk_motl(env, cm, rows)
    if index is not None:
        # row labels as a selection history leaves them (get_motl_subset(..., reset_index=False), remove_feature): distinct, neither
        # contiguous nor ascending; the property is about rows, labels must not matter (added after round 5, seed C07-10)
        m.df.index = list(index)[:n]
    m.clean_by_distance(d, feature, metric_id="score", keep_greater=keep_greater)
    kept = [float(v) for v in m.df["subtomo_id"]]
    env.check("survivors_are_input_particles", env.true() if (len(set(kept)) == len(kept) and all(1 <= k <= n for k in kept)) else _false(env))
    K = [i for i in range(n) if float(i + 1) in kept]
    better = (lambda a, b: env.ge(rows[a]["score"], rows[b]["score"])) if keep_greater else (lambda a, b: env.le(rows[a]["score"], rows[b]["score"]))
    for a, b in itertools.combinations(K, 2):
        if rows[a][feature] == rows[b][feature]:
            env.check("survivors_%d_%d_separated" % (a, b), env.ge(dist2(a, b), d * d))
    for r_ in range(n):
        if r_ in K:
            a = [row(m.df, j) for j in range(m.df.shape[0]) if float(m.df["subtomo_id"].iloc[j]) == float(r_ + 1)][0]
            env.check("survivor_%d_unchanged" % r_, env.and_(*[env.eq(a[c], rows[r_].get(c, 0.0)) for c in COLS]))
            continue
        dom = [env.and_(env.lt(dist2(r_, s), d * d), better(s, r_)) for s in K if rows[s][feature] == rows[r_][feature]]
        env.check("removed_%d_dominated_by_close_survivor_of_its_group" % r_, env.or_(*dom) if dom else _false(env))
    # groups do not affect each other: cleaning one group alone gives the same survivors of that group
    for g in sorted(set(r[feature] for r in rows)):
        sub = [r for r in rows if r[feature] == g]
        if len(sub) == n:
            continue
        m2 = mk_motl(env, cm, sub)
        m2.clean_by_distance(d, feature, metric_id="score", keep_greater=keep_greater)
        alone = sorted(float(v) for v in m2.df["subtomo_id"])
        together = sorted(k for k in kept if rows[int(k) - 1][feature] == g)
        env.check("group_%d_independent_of_other_groups" % int(g), env.true() if alone == together else _false(env))


MAPS = {"3x1x1": (3, 1, 1), "2x2x1": (2, 2, 1), "3x2x1": (3, 2, 1), "2x2x2": (2, 2, 2)}


def h_peaks(env, shape="2x2x1", diameter=1.5, numbering=0, order="zxz", big_list=False):
    tm = env.module("tmana")
    shp = MAPS[shape]
    nv = shp[0] * shp[1] * shp[2]
    sc = [env.real("s%d" % k, -5, 5) for k in range(nv)]
    env.assume(env.and_(*[env.not_(env.eq(sc[a], sc[b])) for a in range(nv) for b in range(a + 1, nv)]))
    thr = env.real("thr", -5, 5)
    env.assume(env.and_(*[env.not_(env.eq(v, thr)) for v in sc]))
    al = [[env.real("ang%d_%d" % (r, c), -180, 180) for c in range(3)] for r in range(3)]
    idxs = list(np.ndindex(*shp))
    if env.mode == "sym":
        scores = np.empty(shp, dtype=object)
        for k, idx in enumerate(idxs):
            scores[idx] = sc[k]
        anglist = np.empty((3, 3), dtype=object)
        for r in range(3):
            for c in range(3):
                anglist[r, c] = al[r][c]
    else:
        scores = np.array(sc, dtype=float).reshape(shp)
        anglist = np.array(al, dtype=float)
    angmap = (np.arange(nv).reshape(shp) % 3 + numbering).astype(float)
    if big_list:
        # an angle list as long as real ones (tens of thousands of rows): the map points at rows 5, 33000 and 39999
        used = [5, 33000, 39999]
        L = 40000
        if env.mode == "sym":
            big = np.zeros((L, 3)).astype(object)
        else:
            big = np.zeros((L, 3))
        for r_, u in enumerate(used):
            for c in range(3):
                big[u, c] = al[r_][c]
        anglist = big
        angmap = np.array([used[k % 3] for k in range(nv)], dtype=float).reshape(shp) + numbering
        al = {u: al[r_] for r_, u in enumerate(used)}
    if order == "zzx":
        # the column order option applies to angle-list FILES (phi, psi, theta per line): concrete values through a real csv
        al = [[10.0 * (r + 1) + c for c in range(3)] for r in range(3)]
        anglist = env.real_path("angles.csv")
        with open(anglist, "w") as fh:
            for r in range(3):
                fh.write("%g,%g,%g\n" % (al[r][0], al[r][1], al[r][2]))
    out = tm.scores_extract_particles(scores, angmap, anglist, tomo_id=7, particle_diameter=diameter, scores_threshold=thr,
                                      angles_order=order, angles_numbering=numbering)
    supra = [k for k in range(nv)]
    if out is None:
        env.check("no_peaks_only_if_nothing_exceeds_threshold", env.and_(*[env.lt(v, thr) for v in sc]))
        return
    df = out.df
    env.check("has_20_fields", env.true() if sorted(df.columns) == sorted(COLS) else _false(env))
    peaks = []
    for j in range(df.shape[0]):
        a = row(df, j)
        p = (int(float(a["x"])) - 1, int(float(a["y"])) - 1, int(float(a["z"])) - 1)
        ok = p in idxs
        env.check("peak_%d_is_a_voxel_position_1_based" % j, env.true() if ok else _false(env))
        if not ok:
            continue
        k = idxs.index(p)
        peaks.append(k)
        env.check("peak_%d_exceeds_threshold" % j, env.gt(sc[k], thr))
        env.check("peak_%d_carries_its_voxel_score" % j, env.eq(a["score"], sc[k]))
        e = int(angmap[p]) - numbering
        exp = (al[e][0], al[e][1], al[e][2]) if order == "zxz" else (al[e][0], al[e][2], al[e][1])
        env.check("peak_%d_angles_from_angle_map_entry" % j, env.and_(env.eq(a["phi"], exp[0]), env.eq(a["theta"], exp[1]), env.eq(a["psi"], exp[2])))
        env.check("peak_%d_tomo_id" % j, env.eq(a["tomo_id"], 7.0))
    env.check("peaks_distinct", env.true() if len(set(peaks)) == len(peaks) else _false(env))
    d2 = lambda a, b: sum((idxs[a][q] - idxs[b][q]) ** 2 for q in range(3))
    for a, b in itertools.combinations(peaks, 2):
        env.check("peaks_%d_%d_farther_apart_than_diameter" % (a, b), env.true() if d2(a, b) > diameter ** 2 else _false(env))
    for k in range(nv):
        if k in peaks:
            continue
        cover = [env.ge(sc[p], sc[k]) for p in peaks if d2(p, k) <= diameter ** 2]
        env.check("supra_threshold_voxel_%d_covered_by_a_better_peak" % k, env.implies(env.gt(sc[k], thr), env.or_(*cover) if cover else _false(env)))


def jobs(tier, seed):
    j = [("h_clean", {"n": 3, "line": True, "feature": "tomo_id", "keep_greater": True}),
         ("h_clean", {"n": 3, "line": True, "feature": "class", "keep_greater": False}),
         ("h_clean", {"n": 2, "line": False, "feature": "object_id", "keep_greater": True}),
         ("h_clean", {"n": 3, "line": True, "feature": "tomo_id", "keep_greater": True, "groups": False, "ties": True}),
         ("h_clean", {"n": 2, "line": True, "feature": "class", "keep_greater": False, "ties": True}),
         ("h_clean", {"n": 3, "line": True, "feature": "tomo_id", "keep_greater": True, "index": [2, 0, 1]}),
         ("h_clean", {"n": 3, "line": True, "feature": "class", "keep_greater": False, "index": [7, 1, 4]}),
         ("h_peaks", {"shape": "3x1x1", "diameter": 1.5, "numbering": 0, "order": "zxz"}), ("h_peaks", {"shape": "3x1x1", "diameter": 1.0, "numbering": 1, "order": "zxz", "big_list": True}),
         ("h_peaks", {"shape": "2x2x1", "diameter": 1.5, "numbering": 0, "order": "zxz"}),
         ("h_peaks", {"shape": "2x2x1", "diameter": 1.0, "numbering": 1, "order": "zzx"})]
    if tier == "thorough":
        j += [("h_clean", {"n": 3, "line": False, "feature": "tomo_id", "keep_greater": True, "groups": False}),
              ("h_clean", {"n": 4, "line": True, "feature": "tomo_id", "keep_greater": False}),
              ("h_peaks", {"shape": "3x2x1", "diameter": 2.5, "numbering": 0, "order": "zxz"}),
              ("h_peaks", {"shape": "2x2x2", "diameter": 1.5, "numbering": 1, "order": "zxz"})]
    return j
