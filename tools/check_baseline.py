#!/usr/bin/env python3
"""compare a junit xml with BASELINE.json stable_pass: every baseline test must still pass"""
import json, sys, xml.etree.ElementTree as ET
base = set(json.load(open('/root/.vp/BASELINE.json'))['stable_pass'])
t = ET.parse(sys.argv[1]).getroot()
passed = set()
for tc in t.iter('testcase'):
    ok = not any(ch.tag in ('failure', 'error', 'skipped') for ch in tc)
    if ok:
        passed.add(tc.get('classname') + '::' + tc.get('name'))
missing = sorted(base - passed)
print("baseline", len(base), "passed now", len(passed), "baseline tests no longer passing:", len(missing))
for m in missing[:20]: print("  ", m)
sys.exit(1 if missing else 0)
