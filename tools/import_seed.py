#!/usr/bin/env python3
"""tools/import_seed.py <prop> <k> <worktree-seed-dir> <check-log> <wall_s-unknown-ok>: file a seeded change that was confirmed in a scratch
worktree (demo clean/patched, pinned tests with the patch) and evaluated through SX_REPO=<worktree> as seeded/<prop>-<k>/."""
import json, os, re, shutil, sys, time
ROOT = os.path.dirname(os.path.dirname(os.path.abspath(__file__)))
prop, k, sd, log = sys.argv[1:5]
checks_version = sys.argv[5] if len(sys.argv) > 5 else ""
name = "%s-%s" % (prop, k)
d = os.path.join(ROOT, "seeded", name)
os.makedirs(d, exist_ok=True)
for f in ("patch.diff", "demo.py"):
    shutil.copy(os.path.join(sd, f), os.path.join(d, f))
meta = json.load(open(os.path.join(sd, "meta.json")))
conf = dict(l.strip().split("=") for l in open(os.path.join(sd, "confirm.txt")) if "=" in l)
out = open(log).read()
viol = []
for m in re.finditer(r"^VIOLATION property=(\S+) replay=(\S+)", out, re.M):
    try:
        r = json.load(open(m.group(2)))
        viol.append("%s:%s" % (r.get("fn"), r.get("obligation") or r.get("exception")))
    except Exception:
        viol.append("?")
rc = int(re.search(r"^rc=(\d+)", out, re.M).group(1))
wall = re.search(r"wall=([\d.]+)s", out)
rec = {"date": time.strftime("%Y-%m-%d"), "repo_head": "242305c", "demo_on_clean_tree_rc": int(conf["demo_clean_rc"]), "demo_with_patch_rc": int(conf["demo_patched_rc"]),
       "baseline_307_tests_still_pass_rc": int(conf["baseline_rc_norm"]),
       "checks": {prop: {"cmd": "SX_REPO=<scratch worktree with the patch applied> VERIF_SEED=1 ./check %s --tier quick --workers 4" % prop, "rc": rc, "violation_lines": len(viol),
                         "first_violations": sorted(set(viol))[:4], "wall_s": round(float(wall.group(1))) if wall else -1, "caught": rc == 1 and bool(viol)}}}
meta["confirmed_by_verifier"] = rec
fe = json.loads(json.dumps(rec))
fe["checks_version"] = checks_version
meta["first_evaluation"] = fe
meta["what_i_ran"] = ("round 5: in the agent's scratch worktree of /repo HEAD 242305c (under /tmp, removed afterwards): demo.py with PYTHONPATH=/repo (clean) and with the patch applied in the "
                      "worktree; the baseline pytest command in the patched worktree + tools/check_baseline.py on the junit file with the worktree path rewritten to /repo (test ids embed data-file paths); "
                      "then the check analysed the patched worktree through SX_REPO (twin modules and the plain package both come from it). /repo itself was never modified.")
json.dump(meta, open(os.path.join(d, "meta.json"), "w"), indent=1)
print(name, "caught" if rec["checks"][prop]["caught"] else "MISSED", rec["checks"][prop]["first_violations"][:2])
