#!/usr/bin/env python3
"""tools/figures.py — regenerate the per-property figures table of DESIGN.md (between FIGURES markers) from evidence/*.json and evidence/thorough/*.json"""
import json, os, re
ROOT = os.path.dirname(os.path.dirname(os.path.abspath(__file__)))


def load(p):
    try:
        return json.load(open(p))
    except Exception:
        return None


rows = ["| id | tier | jobs (incomplete) | paths completed / witnessed | obligations discharged / stated | inconclusive | unsupported paths | solver queries | wall | lines of entered repo functions reached (symbolic runs) |", "|---|---|---|---|---|---|---|---|---|---|"]
for i in range(1, 21):
    p = "C%02d" % i
    for tier, path in (("quick", os.path.join(ROOT, "evidence", p + ".json")), ("thorough", os.path.join(ROOT, "evidence", "thorough", p + ".json"))):
        e = load(path)
        if not e:
            continue
        c = e["coverage"]
        vg = c.get("vacuity_guard", {})
        lc = c.get("line_coverage_of_entered_functions", {})
        rows.append("| %s | %s | %d (%d) | %s / %s | %s / %s | %s | %s | %s | %.0f s | %s / %s |" % (
            p, e.get("tier", tier), len(c.get("jobs", [])), c.get("incomplete_jobs", 0), vg.get("paths_completed", "?"), vg.get("paths_witnessed", "?"),
            c.get("discharged"), c.get("obligations"), c.get("inconclusive"), c.get("unsupported_paths"), c.get("queries"), e.get("wall_s", 0),
            lc.get("total_reached", "?"), lc.get("total_executable", "?")))
block = "<!-- FIGURES -->\n" + "\n".join(rows) + "\n<!-- /FIGURES -->"
dp = os.path.join(ROOT, "DESIGN.md")
s = open(dp).read()
if "<!-- /FIGURES -->" in s:
    s = re.sub(r"<!-- FIGURES -->.*?<!-- /FIGURES -->", lambda _: block, s, flags=re.S)
else:
    s = s.replace("<!-- FIGURES -->", block)
open(dp, "w").write(s)
print(len(rows) - 2, "rows")
