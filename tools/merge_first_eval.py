#!/usr/bin/env python3
"""tools/merge_first_eval.py <old-verif-worktree> <commit>: copy the evaluation made with an OLDER version of the checks into meta.json as `first_evaluation`"""
import glob, json, os, sys
old, commit = sys.argv[1], sys.argv[2]
ROOT = os.path.dirname(os.path.dirname(os.path.abspath(__file__)))
for f in sorted(glob.glob(os.path.join(old, "seeded", sys.argv[3] if len(sys.argv) > 3 else "C*-[45]", "meta.json"))):
    name = os.path.basename(os.path.dirname(f))
    m_old = json.load(open(f))
    c = m_old.get("confirmed_by_verifier")
    if not c:
        continue
    tgt = os.path.join(ROOT, "seeded", name, "meta.json")
    m = json.load(open(tgt))
    c["checks_version"] = "verif commit %s (before any round-2 seed was seen)" % commit
    m["first_evaluation"] = c
    json.dump(m, open(tgt, "w"), indent=1)
    print(name, {p: ("caught" if r["caught"] else "missed") for p, r in c.get("checks", {}).items()})
