#!/bin/bash
# like trial.sh but on the second scratch copy /tmp/repo_clean2
s=$1; p=$2; shift 2
cd /tmp/repo_clean2 || exit 9
git checkout -q -- . ; git apply /verif/seeded/$s/patch.diff || { echo "patch does not apply"; exit 8; }
cd /verif && SX_REPO=/tmp/repo_clean2 ./check $p "$@" > /tmp/trial2.log 2>&1; rc=$?
git -C /tmp/repo_clean2 checkout -q -- .
echo "seed=$s prop=$p rc=$rc $(grep -c '^VIOLATION' /tmp/trial2.log) violations; $(grep -E "^$p tier" /tmp/trial2.log | cut -c1-160)"
