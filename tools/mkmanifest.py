#!/usr/bin/env python3
"""Regenerates MANIFEST.json from tools/claims.json (kept valid at all times)."""
import json, os, sys
ROOT = os.path.dirname(os.path.dirname(os.path.abspath(__file__)))
claims = json.load(open(os.path.join(ROOT, "tools", "claims.json")))
props = [json.loads(l) for l in open(os.path.join(ROOT, "properties.jsonl"))]
ids = [p["id"] for p in props]
checks, na = [], []
for pid in ids:
    c = claims["claimed"].get(pid)
    if c:
        checks.append({
            "property_id": pid,
            "quick_cmd": "./check %s --tier quick" % pid,
            "thorough_cmd": "./check %s --tier thorough" % pid,
            "evidence_file": "/verif/evidence/%s.json" % pid,
            "replay_cmd_template": "./check %s --replay {path}" % pid,
            "engine": c.get("engine", "sx"),
            "level_claimed": {"category": "other", "text": c["text"], "design_ref": c.get("design_ref", "DESIGN.md section 4, " + pid)},
            "level_note": c["note"],
            "technique": c["technique"],
        })
    else:
        na.append({"property_id": pid, "reason": claims["not_applicable"].get(pid, "check not built yet in this session; no claim is made")})
m = {
    "version": 1,
    "setup_cmd": "./setup.sh",
    "hooks": {"guard": "CRYOCAT_VERIF", "enable": "none needed: the loader substitutes library bindings in a twin copy of the module namespace at check time; /repo carries no hooks",
              "baseline_off_cmd": "cd /repo && /venv/bin/python -m pytest -ra -q -p no:cacheprovider --timeout=900 --continue-on-collection-errors",
              "source_commits": [], "add_only": True},
    "engines": [
        {"name": "sx", "path": "/verif/sx", "serves_properties": [p for p in ids if claims["claimed"].get(p, {}).get("engine", "sx") == "sx" and p in claims["claimed"]],
         "kind_free_text": "symbolic execution of the real cryocat function bodies (CPython runs /repo source on z3-term scalars inside real numpy/pandas object arrays and on lazy functional arrays), path forking by solver-decided branches, obligations decided by z3 5.1 / cvc5 1.4 (fresh non-incremental queries, portfolio in killable subprocesses), counterexamples replayed on the plain package"},
        {"name": "crosshair", "path": "/verif/tier_s", "serves_properties": [p for p in ids if claims["claimed"].get(p, {}).get("engine") == "crosshair"],
         "kind_free_text": "CrossHair 0.0.110 symbolic execution of pure-Python string code with z3"},
    ],
    "checks": checks,
    "not_applicable": na,
    "notes": claims.get("notes", ""),
}
json.dump(m, open(os.path.join(ROOT, "MANIFEST.json"), "w"), indent=1)
import jsonschema
jsonschema.validate(m, json.load(open("/root/.vp/MANIFEST.schema.json")))
print("MANIFEST ok: %d checks, %d not_applicable" % (len(checks), len(na)))
