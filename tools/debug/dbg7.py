import sys, json, importlib, time
sys.path.insert(0, '/verif')
import z3
from sx import explore, solve
mod = importlib.import_module('harness.C19')
oi = explore._interior_model
def im(pc, timeout):
    for to in (10, 60):
        t0=time.time()
        r, m, info = solve.check(pc, timeout=to, want_model=True)
        print("plain", to, r, info, round(time.time()-t0,2))
        if r == 'sat': break
    return oi(pc, timeout)
explore._interior_model = im
r = explore.run_path(mod.h_scenario3d, {"kind": "tail_cut"}, [], {"qtimeout": 10, "otimeout": 15})
