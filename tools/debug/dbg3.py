import sys, json, importlib, collections
sys.path.insert(0, '/verif')
from sx import explore, solve
prop, fn = sys.argv[1], sys.argv[2]
params = json.loads(sys.argv[3]) if len(sys.argv) > 3 else {}
N = int(sys.argv[4]) if len(sys.argv) > 4 else 40
mod = importlib.import_module('harness.' + prop)
stack = [[]]
n = 0
c = collections.Counter()
while stack and n < N:
    prefix = stack.pop()
    r = explore.run_path(getattr(mod, fn), params, prefix, {"qtimeout": 10, "otimeout": 15})
    n += 1
    stack.extend(r['children'])
    cc = r.get('crosscheck') or {}
    c[(r['status'], cc.get('status'), cc.get('why'), tuple(cc.get('failed', [])), r.get('pc_model_interior'))] += 1
    if r['status'] != 'ok' and n < 5: print(r.get('why'), r.get('where'))
for k, v in c.items(): print(v, k)
