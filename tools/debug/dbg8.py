import sys, json, os
sys.path.insert(0, '/verif')
if os.environ.get("SX_REPO"): sys.path.insert(0, os.environ["SX_REPO"])
from sx import explore
prop, fn, params = sys.argv[1], sys.argv[2], json.loads(sys.argv[3])
res = explore.explore("harness." + prop, [(fn, params)], {"qtimeout": 20.0, "otimeout": 30.0, "path_obligation_budget": 120.0}, workers=14, max_paths=600, budget_s=float(sys.argv[4]) if len(sys.argv) > 4 else 300)
for f, p, paths, complete in res:
    print("complete", complete, len(paths))
    for q in sorted(paths, key=lambda q: -q.get("seconds", 0)):
        m = q.get("pc_model") or {}
        ops = {k: v for k, v in m.items() if k.startswith("op")}
        unk = [o["name"] for o in q.get("obligations", []) if o["result"] != "unsat"]
        print(q["status"], round(q.get("seconds", 0), 1), ops, unk[:4], q.get("why", "")[:80])
