import sys, json, importlib, time
sys.path.insert(0, '/verif')
import z3
from sx import explore, solve
mod = importlib.import_module('harness.C19')
oi = explore._interior_model
def im(pc, timeout):
    t0=time.time()
    inputs=None
    m, it = oi(pc, timeout)
    nl = sum(1 for c in pc if solve.is_nonlinear(c))
    print("interior_model: pc", len(pc), "nonlinear", nl, "->", m is not None, it, round(time.time()-t0,2), "timeout", timeout)
    if m is None:
        for c in pc:
            if solve.is_nonlinear(c): print("   NL:", str(c)[:200])
    return m, it
explore._interior_model = im
r = explore.run_path(mod.h_scenario3d, {"kind": "tail_cut"}, [], {"qtimeout": 10, "otimeout": 15})
