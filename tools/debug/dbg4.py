import sys, json, importlib, time
sys.path.insert(0, '/verif')
import z3
from sx import explore, solve, core
mod = importlib.import_module('harness.C06')
# run symbolically and dump the obligation + subset assumptions
from sx import loader
ld = loader.get_loader() if hasattr(loader, "get_loader") else None
r = None
orig = explore.run_path
import sx.explore as E
src = open('/verif/sx/explore.py').read()
# simple approach: monkeypatch solve.check to log sizes
log = []
oc = solve.check
def chk(assertions, **kw):
    t0 = time.time()
    res = oc(assertions, **kw)
    syms = set()
    for a in assertions:
        syms |= solve._syms(a)
    log.append((len(assertions), len(syms), res[0], round(time.time() - t0, 2), kw.get('timeout')))
    if len(assertions) < 40 and res[0] == 'unknown':
        open('/tmp/unk_%d.smt2' % len(log), 'w').write(solve.to_smt2(assertions) if hasattr(solve, 'to_smt2') else '')
        log.append(("SYMS", sorted(str(s) for s in syms)))
    return res
solve.check = chk
r = explore.run_path(getattr(mod, 'h_triangle'), {"via": "arrays"}, json.loads(sys.argv[1]) if len(sys.argv) > 1 else [], {"qtimeout": 10, "otimeout": 30, "crosscheck": False})
for o in r.get('obligations', []):
    print(o['name'], o['result'], o.get('solver'), o.get('seconds'))
for l in log[-14:]:
    print(str(l)[:1500])
