import sys, json, importlib, time
sys.path.insert(0, '/verif')
from sx import explore, solve
prop, fn = sys.argv[1], sys.argv[2]
params = json.loads(sys.argv[3]) if len(sys.argv) > 3 else {}
prefix = json.loads(sys.argv[4]) if len(sys.argv) > 4 else []
mod = importlib.import_module('harness.' + prop)
r = explore.run_path(getattr(mod, fn), params, prefix, {"qtimeout": 10, "otimeout": 15})
print({k: (v if k != 'crosscheck' else {kk: vv for kk, vv in v.items() if kk != 'info'}) for k, v in r.items() if k in ('status','pc_model_projected','pc_model_interior','crosscheck','seconds','pc_size','nvars','why','fallback_runs')})
print('has model', 'pc_model' in r)
