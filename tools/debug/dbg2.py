import sys, json, importlib, time
sys.path.insert(0, '/verif')
from sx import explore, solve
prop, fn = sys.argv[1], sys.argv[2]
params = json.loads(sys.argv[3]) if len(sys.argv) > 3 else {}
want = sys.argv[4] if len(sys.argv) > 4 else "unreproduced"
mod = importlib.import_module('harness.' + prop)
stack = [[]]
n = 0
while stack and n < 400:
    prefix = stack.pop()
    r = explore.run_path(getattr(mod, fn), params, prefix, {"qtimeout": 10, "otimeout": 15})
    n += 1
    stack.extend(r['children'])
    hit = False
    if want == "unreproduced":
        for o in r.get('obligations', []):
            if o['result'] == 'sat' and o['name'] not in (o.get('replay') or {}).get('failed', []):
                print("PREFIX", prefix); print(json.dumps(o, indent=1, default=str)[:3000]); hit = True; break
    elif want == "status":
        if r['status'] not in ('ok', 'infeasible'):
            print("PREFIX", prefix); print(json.dumps({k: v for k, v in r.items() if k not in ('functions',)}, indent=1, default=str)[:3000]); hit = True
    elif want == "unknown":
        for o in r.get('obligations', []):
            if o['result'] == 'unknown':
                print("PREFIX", prefix, o); hit = True; break
    if hit:
        break
print("paths", n)
