import sys, json, importlib, time
sys.path.insert(0, '/verif')
from sx import explore, solve
prop, fn = sys.argv[1], sys.argv[2]
params = json.loads(sys.argv[3]) if len(sys.argv) > 3 else {}
prefix = json.loads(sys.argv[4]) if len(sys.argv) > 4 else []
mod = importlib.import_module('harness.' + prop)
solve.QLOG = []
r = explore.run_path(getattr(mod, fn), params, prefix, {"qtimeout": 10, "otimeout": float(sys.argv[5]) if len(sys.argv) > 5 else 15})
for o in r.get('obligations', []):
    print(o['name'], o['result'], o.get('solver'), o.get('seconds'), (o.get('replay') or {}).get('status'), (o.get('replay') or {}).get('failed'))
r2 = {k: v for k, v in r.items() if k not in ('obligations', 'functions', 'pc_model')}
print(json.dumps(r2, indent=1, default=str)[:3000])
print(solve.QLOG[-10:])
