#!/usr/bin/env python3
"""tools/seedmatrix.py [seed-dir-names...] [--tier quick] — confirm every kept seeded change myself and record it in its meta.json:
demo passes on the clean tree, fails with the patch, the baseline tests still pass with the patch, and what the check(s) say with the patch applied.
Applies the patch to /repo, and ALWAYS reverts it (git checkout -- .) before going on."""
import glob, json, os, re, subprocess, sys, time

ROOT = os.path.dirname(os.path.dirname(os.path.abspath(__file__)))
REPO = "/repo"
ALSO = {"C16-3": ["C16", "C17"], "C16-9": ["C16", "C17"], "C18-8": ["C18", "C06"], "C12-8": ["C12", "C13"]}   # changes whose anchor function belongs to another property as well


def sh(cmd, cwd=None, timeout=3600, env=None):
    e = dict(os.environ)
    e.update(env or {})
    try:
        p = subprocess.run(cmd, shell=True, cwd=cwd, stdout=subprocess.PIPE, stderr=subprocess.STDOUT, text=True, timeout=timeout, env=e)
        return p.returncode, p.stdout
    except subprocess.TimeoutExpired as ex:
        return 124, (ex.stdout or b"").decode() if isinstance(ex.stdout, bytes) else (ex.stdout or "")


def main():
    args = [a for a in sys.argv[1:] if not a.startswith("--")]
    tier = "quick"
    if "--tier" in sys.argv:
        tier = sys.argv[sys.argv.index("--tier") + 1]
        args = [a for a in args if a != tier]
    names = args or sorted(os.path.basename(d) for d in glob.glob(os.path.join(ROOT, "seeded", "C*-*")))
    for name in names:
        d = os.path.join(ROOT, "seeded", name)
        meta = json.load(open(os.path.join(d, "meta.json")))
        rc, out = sh("git status --porcelain -- cryocat", cwd=REPO)
        if out.strip():
            print("repo dirty, stop"); return 9
        rec = {"date": time.strftime("%Y-%m-%d"), "repo_head": sh("git rev-parse --short HEAD", cwd=REPO)[1].strip()}
        try:
            rec["demo_on_clean_tree_rc"] = sh("PYTHONPATH=/repo timeout 300 /venv/bin/python %s/demo.py" % d, cwd=REPO)[0]
            rc, out = sh("git apply %s/patch.diff" % d, cwd=REPO)
            if rc:
                rec["error"] = "patch does not apply: " + out[-300:]
                continue
            rec["demo_with_patch_rc"] = sh("PYTHONPATH=/repo timeout 300 /venv/bin/python %s/demo.py" % d, cwd=REPO)[0]
            sh("timeout 1500 /venv/bin/python -m pytest -q -p no:cacheprovider --timeout=900 --continue-on-collection-errors --junitxml=/tmp/seedm_tests.xml", cwd=REPO)
            rec["baseline_307_tests_still_pass_rc"] = sh("/venv/bin/python %s/tools/check_baseline.py /tmp/seedm_tests.xml" % ROOT)[0]
            rec["checks"] = {}
            for prop in ALSO.get(name, [meta["property"]]):
                t0 = time.time()
                rc, out = sh("./check %s --tier %s" % (prop, tier), cwd=ROOT, timeout=3600, env={"VERIF_SEED": "1"})
                viol = []
                for m in re.finditer(r"^VIOLATION property=(\S+) replay=(\S+)", out, re.M):
                    try:
                        r = json.load(open(m.group(2)))
                        viol.append("%s:%s" % (r.get("fn"), r.get("obligation") or r.get("exception")))
                    except Exception:
                        viol.append("?")
                rec["checks"][prop] = {"cmd": "VERIF_SEED=1 ./check %s --tier %s" % (prop, tier), "rc": rc, "violation_lines": len(viol), "first_violations": sorted(set(viol))[:4],
                                       "wall_s": round(time.time() - t0), "caught": rc == 1 and bool(viol)}
        finally:
            sh("git checkout -- .", cwd=REPO)
            sh("rm -f /repo/band.em /tmp/seedm_tests.xml")
            meta["confirmed_by_verifier"] = rec
            meta["what_i_ran"] = ("on /repo (patch applied with `git -C /repo apply`, reverted with `git -C /repo checkout -- .` straight afterwards): demo.py on the clean tree and with the patch; "
                                  "the baseline pytest command + tools/check_baseline.py (all 307 pinned tests must still pass); then the listed ./check commands")
            json.dump(meta, open(os.path.join(d, "meta.json"), "w"), indent=1)
            print(name, json.dumps({k: v for k, v in rec.items() if k != "checks"}), {p: (c["rc"], c["violation_lines"], c["wall_s"]) for p, c in rec.get("checks", {}).items()}, flush=True)
    return 0


if __name__ == "__main__":
    sys.exit(main())
