#!/bin/bash
# tools/seedtest.sh <dir with patch.diff demo.py> <PROP> [tier] : verify a seeded change and run the check against it
# prints: demo_clean demo_mut tests_ok check_rc
d=$1; prop=$2; tier=${3:-quick}
cd /repo || exit 9
if [ -n "$(git status --porcelain -- cryocat)" ]; then echo "repo dirty"; exit 9; fi
PYTHONPATH=/repo timeout 300 /venv/bin/python $d/demo.py >/tmp/seed_demo_clean.log 2>&1; dc=$?
git apply $d/patch.diff || { echo "patch does not apply"; exit 8; }
PYTHONPATH=/repo timeout 300 /venv/bin/python $d/demo.py >/tmp/seed_demo_mut.log 2>&1; dm=$?
if [ -z "$SKIP_TESTS" ]; then
  timeout 1500 /venv/bin/python -m pytest -q -p no:cacheprovider --timeout=900 --continue-on-collection-errors --junitxml=/tmp/seed_tests.xml >/tmp/seed_tests.log 2>&1
  /venv/bin/python /verif/tools/check_baseline.py /tmp/seed_tests.xml >/tmp/seed_base.log 2>&1; tb=$?
else tb=skipped; fi
cd /verif && timeout 3000 ./check $prop --tier $tier > /tmp/seed_check.log 2>&1; rc=$?
git -C /repo checkout -- . 
rm -f /repo/band.em
echo "seed=$d demo_clean_rc=$dc demo_mut_rc=$dm baseline_tests_rc=$tb check_rc=$rc"
grep -E "^VIOLATION|^KNOWN|^C[0-9]+ tier" /tmp/seed_check.log | cut -c1-220 | head -8
