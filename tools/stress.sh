#!/bin/bash
# tools/stress.sh <rounds> [tier]: run every check <rounds> times with different seeds; print rc / wall / summary line
rounds=${1:-2}; tier=${2:-quick}
cd /verif
for r in $(seq 1 $rounds); do
 for i in $(seq -w 1 20); do
  p=C$i; s=$(date +%s)
  VERIF_SEED=$r ./check $p --tier $tier > /tmp/stress_$p.log 2>&1; rc=$?
  e=$(date +%s)
  echo "round=$r $p rc=$rc wall=$((e-s))s $(grep -E "^$p tier" /tmp/stress_$p.log | cut -c1-200)"
  if [ $rc -ne 0 ]; then cp /tmp/stress_$p.log /tmp/stress_fail_${p}_r$r.log; fi
 done
done
