#!/usr/bin/env python3
"""prints the prompt for a seeding sub-agent: only the property text and its scratch worktree"""
import json, sys
pid, wt = sys.argv[1], sys.argv[2]
n = sys.argv[3] if len(sys.argv) > 3 else "2"
p = [json.loads(l) for l in open('/verif/properties.jsonl') if json.loads(l)['id'] == pid][0]
print(f"""You are helping to evaluate a verification effort for the Python package cryoCAT (turonova/cryoCAT: toolkit for cryo-ET particle lists, format conversion, rotation geometry, map filtering).

You have your own scratch git worktree of the repository at {wt} (work ONLY there; never read or touch /repo or /verif — they are off limits; do not look for other people's checks). Python with all dependencies: /venv/bin/python (no network, nothing can be installed). To import YOUR modified copy use PYTHONPATH={wt} (the installed `cryocat` otherwise points elsewhere). Check with: cd {wt} && PYTHONPATH={wt} /venv/bin/python -c "import cryocat,sys; print(cryocat.__file__)".

Here is a semantic property of cryoCAT that should hold:

PROPERTY {p['id']}: {p['title']}
STATEMENT: {p['statement']}
QUANTIFIED OVER: {p['quantifier']['text']}
CODE ANCHORS: {json.dumps(p['anchors']['mechanism'])}

Your task: produce {n} DIFFERENT realistic code changes (mutations) to the package source under {wt}/cryocat/ each of which BREAKS this property while (a) the package still imports, and (b) the existing test suite still passes exactly as before. Prefer changes that need something specific to manifest — an unusual input (boundary value, tie, negative value, non-default option, particular id pattern, multi-row/multi-tomogram case), a multi-step sequence of operations, or two cooperating sites that each look fine alone — NOT ones that ordinary use on a typical input would expose at once. Each change should look like a plausible bug a developer could introduce (off-by-one, wrong comparison, swapped arguments/columns, sign, wrong axis, stale index, wrong rounding, dropped copy, etc.) and be small (a few lines).

The existing test suite: cd {wt} && PYTHONPATH={wt} /venv/bin/python -m pytest -q -p no:cacheprovider --timeout=900 -x -q tests/<relevant test file>  (the full suite takes ~70 s: `cd {wt} && PYTHONPATH={wt} /venv/bin/python -m pytest -ra -q -p no:cacheprovider --timeout=900 --continue-on-collection-errors`). NOTE: on the UNCHANGED tree 307 tests pass and 129 fail (the failures are pre-existing: missing data files / pandas-3 incompatibilities). "Still passes" means: the set of passing tests with your change is identical to the set passing without it. First run the full suite once on the unchanged worktree and save the list of passed tests (e.g. with `-rA` or `--junitxml`), so you can compare.

For each mutation i (1..{n}) create the directory {wt}/SEED/i/ containing:
  - patch.diff : `git diff` of the change against the worktree HEAD (only files under cryocat/; apply-able with `git apply`),
  - demo.py    : a small standalone program (run as `PYTHONPATH=<tree> /venv/bin/python demo.py`) that exercises the public API, checks the property on a specific input, exits 0 and prints PASS when the property holds and exits 1 and prints FAIL when it is violated. It must PASS on the unchanged tree and FAIL with your change applied. Do not depend on files outside the repository tree; build inputs in memory or in a temp dir.
  - meta.json  : {{"property": "{p['id']}", "summary": "...what was changed...", "needs": "...what specific input/sequence is needed for it to manifest...", "files": [...], "tests_identical": true/false, "how_verified": "commands you ran"}}
After producing each patch.diff, REVERT the change in the worktree (git checkout -- cryocat) so that the worktree source is clean at the end; the SEED directory is untracked and stays.
Verify yourself, for each mutation: (1) demo passes on clean tree, (2) apply patch, demo fails, (3) run the full suite with the patch applied and confirm the set of passed tests is identical to the clean run, (4) revert.
If the property is ALREADY violated on the unchanged tree for some inputs (the code base has known defects), choose mutations and demo inputs for behaviour that currently works.
Finish with a short report: for each mutation one paragraph (what, why it is subtle, what triggers it) and whether all four verification steps succeeded.""")
