#!/bin/bash
# tools/collect_seed.sh <PROP> <worktree> <first new index>: copy SEED/<i> dirs into /verif/seeded/<PROP>-<k>, then remove the worktree
p=$1; wt=$2; k=$3
for d in $wt/SEED/*/; do
  [ -f $d/patch.diff ] || continue
  mkdir -p /verif/seeded/$p-$k; cp $d/patch.diff $d/demo.py $d/meta.json /verif/seeded/$p-$k/ 2>/dev/null; echo "kept $d as $p-$k"; k=$((k+1))
done
git -C /repo worktree remove --force $wt && echo "removed $wt"
