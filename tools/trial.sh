#!/bin/bash
# tools/trial.sh <seed-name> <PROP> [extra ./check args]: apply a seeded patch to the scratch copy /tmp/repo_clean (never /repo), run the check against it (SX_REPO), revert
s=$1; p=$2; shift 2
cd /tmp/repo_clean || exit 9
git checkout -q -- . ; git apply /verif/seeded/$s/patch.diff || { echo "patch does not apply"; exit 8; }
cd /verif && SX_REPO=/tmp/repo_clean ./check $p "$@" > /tmp/trial.log 2>&1; rc=$?
git -C /tmp/repo_clean checkout -q -- .
echo "seed=$s prop=$p rc=$rc $(grep -c '^VIOLATION' /tmp/trial.log) violations; $(grep -E "^$p tier" /tmp/trial.log | cut -c1-160)"
