#!/usr/bin/env python3
"""print source of functions/methods (docstrings stripped): tools/src.py module name [name...]"""
import ast, sys
mod = sys.argv[1]
path = '/repo/cryocat/%s.py' % mod
src = open(path).read()
tree = ast.parse(src)
lines = src.split('\n')
want = sys.argv[2:]
for node in ast.walk(tree):
    if isinstance(node, (ast.FunctionDef, ast.AsyncFunctionDef)) and node.name in want:
        start = node.lineno - 1 - len(node.decorator_list)
        end = node.end_lineno
        skip = set()
        if node.body and isinstance(node.body[0], ast.Expr) and isinstance(getattr(node.body[0], 'value', None), ast.Constant) and isinstance(node.body[0].value.value, str):
            skip = set(range(node.body[0].lineno - 1, node.body[0].end_lineno))
        print("# ---- %s:%d" % (mod, node.lineno))
        for i in range(start, end):
            if i not in skip and lines[i].strip():
                print(lines[i])
