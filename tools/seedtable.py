#!/usr/bin/env python3
"""tools/seedtable.py — regenerate the seeded-change table of DESIGN.md (between the SEED-TABLE markers) from seeded/*/meta.json."""
import glob, json, os, re
ROOT = os.path.dirname(os.path.dirname(os.path.abspath(__file__)))
rows = ["| seed | breaks | change (short) | demo clean / patched | pinned tests with patch | first evaluation (checks as they were BEFORE the seed's round was seen) | check verdict now (quick) | first violated obligation |", "|---|---|---|---|---|---|---|---|"]
first_stats = {}
n = caught = 0
for f in sorted(glob.glob(os.path.join(ROOT, "seeded", "C*-*", "meta.json"))):
    m = json.load(open(f))
    name = os.path.basename(os.path.dirname(f))
    c = m.get("confirmed_by_verifier")
    if not c:
        rows.append("| %s | %s | %s | not re-run | | | |" % (name, m["property"], m["summary"][:90].replace("|", "/")))
        continue
    n += 1
    ver, first = [], ""
    any_caught = False
    for p, r in c.get("checks", {}).items():
        ver.append("%s: %s (%d VIOLATION lines, %d s)" % (p, "caught" if r["caught"] else "MISSED rc=%s" % r["rc"], r["violation_lines"], r["wall_s"]))
        any_caught |= r["caught"]
        if r["first_violations"] and not first:
            first = r["first_violations"][0]
    caught += any_caught
    fe = m.get("first_evaluation")
    k_ = int(name.split("-")[1])
    rnd = 1 if k_ <= 3 else (2 if k_ <= 5 else (3 if k_ <= 7 else (4 if k_ <= 9 else 5)))
    if fe:
        fcaught = any(r_["caught"] for r_ in fe.get("checks", {}).values())
        fs = first_stats.setdefault(rnd, [0, 0])
        fs[0] += 1
        fs[1] += fcaught
        fetxt = "caught" if fcaught else "MISSED"
    else:
        fetxt = "(round 1: checks were built alongside)"
    rows.append("| %s | %s | %s | %s / %s | %s | %s | %s | `%s` |" % (name, m["property"], re.sub(r"\s+", " ", m["summary"])[:110].replace("|", "/"), c.get("demo_on_clean_tree_rc"), c.get("demo_with_patch_rc"),
                                                             "pass" if c.get("baseline_307_tests_still_pass_rc") == 0 else "FAIL", fetxt, "; ".join(ver), first[:70]))
rows.append("")
rows.append("%d of %d re-confirmed seeded changes are caught by the quick tier of at least one check." % (caught, n))
for rnd, (tot, c_) in sorted(first_stats.items()):
    rows.append("Round %d first evaluation (checks frozen before the round's seeds were read): %d of %d caught." % (rnd, c_, tot))
p = os.path.join(ROOT, "DESIGN.md")
s = open(p).read()
block = "<!-- SEED-TABLE -->\n" + "\n".join(rows) + "\n<!-- /SEED-TABLE -->"
if "<!-- /SEED-TABLE -->" in s:
    s = re.sub(r"<!-- SEED-TABLE -->.*?<!-- /SEED-TABLE -->", lambda _: block, s, flags=re.S)
else:
    s = s.replace("<!-- SEED-TABLE -->", block)
open(p, "w").write(s)
print("\n".join(rows[-3:]))
