#!/bin/bash
# builds the overlay venv (offline): /venv's packages + z3-solver, cvc5, crosshair-tool from the wheelhouse
set -e
cd "$(dirname "$0")"
rm -rf .venv
/venv/bin/python -m venv .venv
echo "import site; site.addsitedir('/venv/lib/python3.12/site-packages')" > .venv/lib/python3.12/site-packages/_overlay.pth
.venv/bin/pip install -q --no-index --find-links /opt/veriftools/wheels z3-solver cvc5 crosshair-tool jsonschema
.venv/bin/python -c "import z3, cvc5, crosshair, cryocat"
