"""CrossHair conditions for C17(a): Mdoc._format_value classification (symbolic strings)."""
from cryocat.mdoc import Mdoc

ALPHA = " 01.-a"


def _digits(s: str) -> bool:
    return len(s) > 0 and all(c in "0123456789" for c in s)


def fmt_rule(value: str) -> bool:
    """
    pre: len(value) <= 3
    pre: all(c in ALPHA for c in value)
    post: _
    """
    out = Mdoc._format_value(value)
    s = value.strip()
    if _digits(s):
        return type(out) is int and str(out) == (s.lstrip("0") or "0")
    if s.count(".") == 1 and _digits(s.replace(".", "")):
        return type(out) is float
    return type(out) is str and out == s


def fmt_rule_reach(value: str) -> bool:
    """
    pre: len(value) <= 3
    pre: all(c in ALPHA for c in value)
    post: not _
    """
    out = Mdoc._format_value(value)
    s = value.strip()
    return type(out) is str and out == s
