"""CrossHair conditions for C02(a): Token.tokenize against an independent tokenizer (symbolic strings)."""
from cryocat.starfileio import Token, TokenType

ALPHA = " \t#_a1\n\r"
KIND = {TokenType.COMMENT: "C", TokenType.PROPERTY: "P", TokenType.LOOP: "L", TokenType.LITERAL: "V", TokenType.NEWLINE: "N"}


def ref_tokens(text: str):
    """independent tokenizer: lines split at LF; '#' starts a comment to the end of the line (stripped); words are maximal runs of
    characters that are neither whitespace nor '#'; a word is a label if it starts with '_', the keyword if it is 'loop_'"""
    out = []
    for line in text.split("\n"):
        i, n = 0, len(line)
        while i < n:
            ch = line[i]
            if ch == "#":
                out.append(("C", line[i + 1:].strip()))
                break
            if ch.isspace():
                i += 1
                continue
            j = i
            while j < n and not line[j].isspace() and line[j] != "#":
                j += 1
            w = line[i:j]
            out.append(("P" if w[0] == "_" else ("L" if w == "loop_" else "V"), w))
            i = j
        out.append(("N", None))
    return out


def got_tokens(text: str):
    return [(KIND[t.token_type], t.value) for t in Token.tokenize(text)[::-1]]


def tok_matches(text: str) -> bool:
    """
    pre: len(text) <= 4
    pre: all(c in ALPHA for c in text)
    post: _
    """
    return got_tokens(text) == ref_tokens(text)


def tok_matches_reach(text: str) -> bool:
    """
    pre: len(text) <= 4
    pre: all(c in ALPHA for c in text)
    post: not _
    """
    return got_tokens(text) == ref_tokens(text)


def loop_matches(text: str) -> bool:
    """
    pre: len(text) <= 7
    pre: text.count("loop_") == 1
    pre: all(c in ALPHA for c in text.replace("loop_", ""))
    post: _
    """
    return got_tokens(text) == ref_tokens(text)
